/-
  C04 — waits return at the right time for exactly one cause; no stale wake-ups.
  Property theorems only (the process-layer model is CimbaModel/Sim; helper lemmas in CimbaModel/Sim/*).
-/
import CimbaModel.Sim.Basic
import CimbaModel.Sim.S3Hold
import CimbaModel.Sim.S3PInvCor
import CimbaModel.Sim.S3All
import CimbaModel.Sim.S3Built
import CimbaModel.Sim.S5Pattern
import CimbaModel.Sim.S7TimerOf

namespace CimbaModel.Props.C04
open CimbaModel CimbaModel.Sim CimbaModel.Event CimbaModel.Generated CimbaModel.KPQ
open CimbaModel.Sim.S3 CimbaModel.Sim.S5 CimbaModel.Sim.S7
open CimbaModel.HashHeap (HTag HH WF abs init_spec)

/-- a timer (and hence a hold, which is a timer with the success code) armed for `d ≥ 0` is a pending event at
    exactly now + d, addressed to the process and carrying the signal; arming does not move the clock -/
theorem timer_due_exactly (w : World) (p : Pid) (d sig : Int) (hd : 0 ≤ d) :
    (∃ e ∈ (timerAdd w p d sig).1.ev.pending, e.key = (timerAdd w p d sig).2 ∧ e.d = w.now + d ∧ e.item.b = p + 1 ∧
        e.item.c = encSig sig ∧ e.item.a = aTime) ∧
    (timerAdd w p d sig).1.now = w.now :=
  timerAdd_due w p d sig hd

/-- every wake-up the library schedules for a process goes into the event queue at the requested time,
    as one new event, without touching the clock, the processes or the resources -/
theorem wakeup_scheduling_is_pure (w : World) (act subj : Nat) (sig t pri : Int) (ht : w.now ≤ t) :
    (sched w act subj sig t pri).1.ev.pending =
      { key := w.ev.counter + 1, item := ⟨act, subj, encSig sig, 0⟩, d := t, i := pri } :: w.ev.pending ∧
    (sched w act subj sig t pri).1.now = w.now ∧ (sched w act subj sig t pri).1.procs = w.procs :=
  ⟨(sched_ok w act subj sig t pri ht).2.1, (sched_ok w act subj sig t pri ht).2.2.1, (sched_ok w act subj sig t pri ht).2.2.2.1⟩

/-- signals survive the encoding into the event's object word -/
theorem signal_roundtrip (s : Int) (h : -(2 ^ 63 : Int) ≤ s ∧ s < 2 ^ 63) : decSig (encSig s) = s := by
  unfold decSig encSig
  by_cases hs : 0 ≤ s
  · have : s % (2 ^ 64 : Int) = s := Int.emod_eq_of_lt hs (by omega)
    rw [this]
    have h2 : (s.toNat : Int) = s := Int.toNat_of_nonneg hs
    split
    · exact h2
    · rename_i hlt; exfalso; apply hlt
      have : s.toNat < 2 ^ 63 := by omega
      exact this
  · have hneg : s < 0 := by omega
    have : s % (2 ^ 64 : Int) = s + 2 ^ 64 := by
      rw [Int.emod_eq_add_self_emod, Int.emod_eq_of_lt] <;> omega
    rw [this]
    have h2 : ((s + 2 ^ 64).toNat : Int) = s + 2 ^ 64 := Int.toNat_of_nonneg (by omega)
    split
    · rename_i hlt; exfalso
      have : ((s + 2 ^ 64).toNat : Int) < 2 ^ 63 := by exact_mod_cast hlt
      omega
    · rw [h2]; omega


/-! ### ClockInv: nothing but `dispatch` moves the clock, nothing is ever scheduled in the past

`Evo w w'` (Sim/S3Evo.lean) is the footprint every function of the process layer has on the event kernel: the clock is
the same, the kernel invariant `EvInv` (every issued handle in exactly one of pending / executed / cancelled; nothing
pending in the past) is preserved, a recorded fault is never cleared, handles only grow, and an event that keeps its
handle keeps its time, action, subject and signal. -/

/-- `sched` never schedules in the past: either the time is not before the current time and exactly one event is
    added, or the request is refused — the event queue is left as it is and a fault is recorded -/
theorem sched_not_in_past (w : World) (act subj : Nat) (sig t pri : Int) :
    (w.now ≤ t ∧ sched w act subj sig t pri = (pushEv w act subj sig t pri, w.ev.counter + 1)) ∨
    (t < w.now ∧ ∃ m, sched w act subj sig t pri = (w.fail m, 0)) :=
  sched_cases w act subj sig t pri

/-- every command, every resumption of a suspended call, the end of a process and a whole activation of a process keep
    the clock, the kernel invariant, recorded faults and the data of pending events — for all programs, no hypothesis -/
theorem process_layer_keeps_clock (w : World) (p : Pid) :
    (∀ c, Evo w (execCmd w p c).1) ∧ (∀ f sig, Evo w (resumeFrame w p f sig).1) ∧
    (∀ v s, Evo w (finishProc w p v s)) ∧ (∀ fuel, Evo w (runScript fuel w p)) ∧ (∀ sig, Evo w (resumeProc w p sig)) ∧
    (∀ g, Evo w (signal w g)) ∧ Evo w (cancelAwaiteds w p) :=
  ⟨fun c => (Evo.refl w).execCmd_fst p c, fun f sig => (Evo.refl w).resumeFrame_fst p f sig,
   fun v s => (Evo.refl w).finishProc p v s, fun fuel => Evo.runScript fuel (Evo.refl w) p,
   fun sig => (Evo.refl w).resumeProc p sig, fun g => (Evo.refl w).signal g, (Evo.refl w).cancelAwaiteds p⟩

/-- what `Evo` says, spelled out -/
theorem evo_means {w w' : World} (h : Evo w w') :
    w'.now = w.now ∧ (EvInv w.ev → EvInv w'.ev) ∧ (w'.fault = none → w.fault = none) ∧ w.ev.counter ≤ w'.ev.counter ∧
    (∀ e' ∈ w'.ev.pending, e'.key ≤ w.ev.counter → ∃ e ∈ w.ev.pending, e.key = e'.key ∧ e.d = e'.d ∧ e.item = e'.item) :=
  ⟨h.wnow, h.evinv, h.fault, h.counter, h.stable⟩

/-- `dispatch` sets the clock to the time of the dispatched event — the (time, −priority, handle)-minimum of the pending
    set —, which is never earlier than the clock was; afterwards again nothing is pending in the past -/
theorem dispatch_sets_clock {w w' : World} (hi : EvInv w.ev) (hd : dispatch w = some w') :
    (∃ e ∈ w.ev.pending, (∀ x ∈ w.ev.pending, heap_order_check x e = false) ∧ w'.now = e.d ∧
      w'.ev.executed = e.key :: w.ev.executed ∧ w'.ev.current = e.key) ∧
    w.now ≤ w'.now ∧ EvInv w'.ev ∧ (∀ e ∈ w'.ev.pending, w'.now ≤ e.d) ∧ (w'.fault = none → w.fault = none) := by
  have h := dispatch_clock hi hd
  exact ⟨h.ev, h.mono, h.evinv, h.evinv.timeOk, h.fault⟩

/-- `ClockInv` in every reachable state: along any run from a state satisfying the kernel invariant (the initial state
    does), the invariant holds, the clock and the handle counter never decrease, a fault is never cleared, and a pending
    event keeps its time, action, subject and signal as long as it is pending -/
theorem clock_inv_reachable {w w' : World} (h : Reach w w') (hi : EvInv w.ev) :
    EvInv w'.ev ∧ w.now ≤ w'.now ∧ w.ev.counter ≤ w'.ev.counter ∧ (w'.fault = none → w.fault = none) ∧
    w'.procs.size = w.procs.size ∧
    (∀ e' ∈ w'.ev.pending, e'.key ≤ w.ev.counter → ∃ e ∈ w.ev.pending, e.key = e'.key ∧ e.d = e'.d ∧ e.item = e'.item) :=
  h.clock hi

theorem clock_inv_run (fuel : Nat) (w : World) (hi : EvInv w.ev) :
    EvInv (runAll fuel w).ev ∧ w.now ≤ (runAll fuel w).now ∧ ((runAll fuel w).fault = none → w.fault = none) ∧
      w.ev.counter ≤ (runAll fuel w).ev.counter :=
  runAll_clock fuel w hi

/-! ### hold -/

/-- `hold d` (d ≥ 0) arms exactly one event — fresh handle h, action aTime, addressed to the caller, carrying SUCCESS,
    due at exactly now + d, with the caller's priority —, registers TIME(h) in the caller's awaits and suspends it in
    the frame `hold h`; the clock does not move -/
theorem hold_arms (w : World) (p : Pid) (d : Int) (hd : 0 ≤ d) :
    execCmd w p (.hold d) = (holdWorld w p d, .blocked) ∧
    (holdWorld w p d).ev.pending =
      mkEv (w.ev.counter + 1) aTime (p + 1) sigSuccess (w.now + d) (w.proc p).prio :: w.ev.pending ∧
    (holdWorld w p d).now = w.now ∧ (holdWorld w p d).ev.counter = w.ev.counter + 1 ∧
    (p < w.procs.size → ((holdWorld w p d).proc p).blocked = some (.hold (w.ev.counter + 1)) ∧
      ((holdWorld w p d).proc p).awaits = .time (w.ev.counter + 1) :: (w.proc p).awaits ∧
      ((holdWorld w p d).proc p).status = (w.proc p).status) :=
  hold_blocks w p d hd

/-- `hold_exact`: a process executes `hold d` (d ≥ 0) at time t₀.  Whenever, after any number of dispatched events, the
    event that is dispatched is the one with the handle the hold armed, the clock is exactly t₀ + d, and that event is
    the (aTime, SUCCESS) wake-up addressed to that process -/
theorem hold_exact {w0 : World} (p : Pid) {d : Int} (hd : 0 ≤ d) (hi : EvInv w0.ev) {w w' : World}
    (hreach : Reach (execCmd w0 p (.hold d)).1 w) (hdisp : dispatch w = some w')
    (hcur : w'.ev.current = w0.ev.counter + 1) :
    w'.now = w0.now + d ∧
    ∃ e ∈ w.ev.pending, e.key = w0.ev.counter + 1 ∧ e.d = w0.now + d ∧ e.item.a = aTime ∧ e.item.b = p + 1 ∧
      e.item.c = encSig sigSuccess ∧ decSig e.item.c = sigSuccess :=
  S3.hold_exact p hd hi hreach hdisp hcur

/-- the dispatch of a timer event removes TIME(handle) from the awaits of its process and resumes it with the carried
    value; a suspended hold returns exactly the value it is resumed with: SUCCESS without touching anything, any other
    value after cancelling its own timer and forgetting it -/
theorem hold_returns (w : World) (p : Pid) (h : Nat) (t : HTag) (sig : Int) :
    (t.item.a = aTime → dispatchBody w t =
      resumeProc (removeAwait w (t.item.b - 1) (.time t.key)).1 (t.item.b - 1) (decSig t.item.c)) ∧
    (resumeFrame w p (.hold h) sig).2 = .ret sig "" ∧
    resumeFrame w p (.hold h) sigSuccess = (w, .ret sigSuccess "") ∧
    (sig ≠ sigSuccess → resumeFrame w p (.hold h) sig = ((removeAwait (timerCancel w p h).1 p (.time h)).1, .ret sig "")) :=
  ⟨dispatchBody_time w t, resumeFrame_hold_ret w p h sig, resumeFrame_hold_success w p h, resumeFrame_hold_other w p h sig⟩

/-- `dispatch` = take the minimum event, wake its waiters, run its action -/
theorem dispatch_is (w : World) :
    dispatch w = match executeNext w.ev with
      | none => none
      | some (t, ev') => some (dispatchBody (takeNext w t ev') t) := dispatch_eq w

/-- so a SUCCESS return can only be caused by an event whose signal word is 0 -/
theorem success_needs_zero_word (s : Int) : decSig (encSig s) = 0 ↔ encSig s = 0 :=
  decSig_eq_zero (encSig_lt s)

/-! ### never stuck: what a process waits for produces its wake-up at that very moment -/

/-- the end of a process (return, exit, stop): every process registered as waiting for it has a wake-up (aProc) pending at
    the current time, carrying SUCCESS (normal end) or STOPPED -/
theorem finish_wakes_waiters (w : World) (p : Pid) (val : Int) (stopped : Bool) (q : Pid)
    (hq : q ∈ ((finishPre w p stopped).proc p).waiters) :
    (∃ e ∈ (finishProc w p val stopped).ev.pending, e.item.a = aProc ∧ e.item.b = q + 1 ∧
      e.item.c = encSig (if stopped then sigStopped else sigSuccess) ∧ e.d = w.now ∧
      e.i = ((finishPre w p stopped).proc q).prio) ∧
    (finishProc w p val stopped).now = w.now :=
  finishProc_wakes w p val stopped q hq

/-- the execution of an event: every process registered as waiting for it has a wake-up (aEvent, SUCCESS) pending at the
    time of the event before the event's own action runs, and the registrations are gone -/
theorem event_wakes_waiters (w : World) (t : HTag) (ev' : EvQ) (q : Pid) (hq : q ∈ (w.evWaiters.lookup t.key).getD []) :
    (∃ e ∈ (takeNext w t ev').ev.pending, e.item.a = aEvent ∧ e.item.b = q + 1 ∧ e.item.c = encSig sigSuccess ∧
      e.d = ev'.now ∧ e.i = (w.proc q).prio) ∧
    (takeNext w t ev').evWaiters = w.evWaiters.filter (·.1 ≠ t.key) :=
  ⟨takeNext_wakes w t ev' q hq, takeNext_evWaiters w t ev'⟩

/-- the cancellation of a scheduled event (whatever else is or is not in the event queue): its waiters have a wake-up
    (aEvent, CANCELLED) pending at the current time, the event is gone; cancelling an unscheduled handle returns false and
    changes nothing -/
theorem cancel_wakes_waiters (w : World) (h : Nat) (hi : EvInv w.ev) :
    (h ∈ keys w.ev.pending → (evCancel w h).2 = true ∧ h ∉ keys (evCancel w h).1.ev.pending ∧
      ∀ q ∈ (w.evWaiters.lookup h).getD [],
        ∃ e ∈ (evCancel w h).1.ev.pending, e.item.a = aEvent ∧ e.item.b = q + 1 ∧ e.item.c = encSig sigCancelled ∧
          e.d = w.now ∧ e.i = (w.proc q).prio) ∧
    (h ∉ keys w.ev.pending → evCancel w h = (w, false)) := by
  constructor
  · intro hk
    refine ⟨by rw [evCancel_snd]; simp [hk], ?_, fun q hq => (evCancel_wakes w h hi hk q hq).2.1⟩
    rw [evCancel_eq]
    simp only [hk, if_true, pushAll_pending]
    intro hmem
    obtain ⟨e, he, hek⟩ := Event.mem_keys.1 hmem
    rcases List.mem_append.1 he with he | he
    · have h1 := (wakeEvs_props he).1
      obtain ⟨e0, he0, hk0⟩ := Event.mem_keys.1 hk
      have h2 := EvInv.key_le hi he0
      simp only [cancelEv_counter] at h1
      omega
    · exact (mem_remove.1 he).2 hek
  · intro hk; rw [evCancel_eq]; simp [hk]

/-! ### WaitersInv and NoStaleInv (process / event part): an invariant of every reachable state

`PInvB w` (Sim/S3PInv.lean) bundles, for the state between two dispatched events: the kernel invariant; a process has
at most one PROCESS and one EVENT awaitable, exactly while it is suspended in `wait_process` / `wait_event` on it; a
registered waiter (of a process, of an event) awaits it; waiters are registered only with scheduled events; every
pending process-end / event-done wake-up is owned by the wait its process is suspended in, and there is at most one.
It is preserved by `dispatch` for all programs, schedules and same-instant coincidences — no `ValidProgram`
hypothesis —, hence holds in every reachable state (the proof goes through every command, every epilogue,
`cancel_awaiteds`, the end of a process, and the wake-ups of `dispatch`). -/

/-- the invariant holds before anything is registered … -/
theorem pinv_init {w : World} (h : InitOk w) : PInvB w := h.pinv

/-- … is preserved by every dispatched event … -/
theorem pinv_dispatch {w w' : World} (hp : PInvB w) (hd : dispatch w = some w') : PInvB w' := hp.dispatch hd

/-- … hence holds in every reachable state, and after `runAll` -/
theorem pinv_reachable {w w' : World} (h : Reach w w') (hp : PInvB w) : PInvB w' := hp.reach h

theorem pinv_run (fuel : Nat) (w : World) (hp : PInvB w) : PInvB (runAll fuel w) := hp.runAll fuel w

/-- `WaitersInv` (I_waiters): `q ∈ (proc p).waiters` implies `PROCESS(p) ∈ (proc q).awaits`, `q` is running and suspended
    in `wait_process p`, and nobody is listed twice; the same for event waiters, which are only registered with
    scheduled events -/
theorem waiters_inv {w : World} (h : PInvB w) :
    (∀ p q, q ∈ (w.proc p).waiters →
      Await.proc p ∈ (w.proc q).awaits ∧ (w.proc q).blocked = some (.waitProc p) ∧ (w.proc q).status = .running ∧
      (w.proc p).waiters.Nodup) ∧
    (∀ k l, (k, l) ∈ w.evWaiters → ∀ q ∈ l,
      Await.event k ∈ (w.proc q).awaits ∧ (w.proc q).blocked = some (.waitEvent k) ∧ (w.proc q).status = .running ∧
      k ∈ keys w.ev.pending ∧ l.Nodup) :=
  ⟨h.waiters, fun k l hm q hq => h.eventWaiters k l hm q hq⟩

/-- conversely a PROCESS / EVENT awaitable is only there while the process is suspended in that wait, and there is at
    most one of each -/
theorem awaits_match_frame {w : World} (h : PInvB w) (p : Pid) :
    (∀ q, Await.proc q ∈ (w.proc p).awaits → (w.proc p).blocked = some (.waitProc q) ∧ procAw w p = [.proc q]) ∧
    (∀ k, Await.event k ∈ (w.proc p).awaits → (w.proc p).blocked = some (.waitEvent k) ∧ evAw w p = [.event k]) := by
  constructor
  · intro q hq
    refine ⟨(h.proc_unique hq hq).2, ?_⟩
    rcases h.ap p with h' | ⟨q', _, h'⟩
    · rw [mem_awaits_proc, h'] at hq; cases hq
    · rw [mem_awaits_proc, h'] at hq
      simp only [List.mem_singleton, Await.proc.injEq] at hq
      rw [h', hq]
  · intro k hk
    refine ⟨(h.event_unique hk hk).2, ?_⟩
    rcases h.ae p with h' | ⟨k', _, h'⟩
    · rw [mem_awaits_event, h'] at hk; cases hk
    · rw [mem_awaits_event, h'] at hk
      simp only [List.mem_singleton, Await.event.injEq] at hk
      rw [h', hk]

/-- `NoStaleInv`, process-end wake-ups: a pending (aProc) event addressed to `p`, whatever signal it carries, is owned by
    the `wait_process q` that `p` is suspended in right now; `p` is no longer on `q`'s waiter list; it is the only one -/
theorem no_stale_process_wakeup {w : World} (h : PInvB w) {e : HTag} (he : e ∈ w.ev.pending) (ha : e.item.a = aProc) :
    ∃ p q, e.item.b = p + 1 ∧ (w.proc p).blocked = some (.waitProc q) ∧ (w.proc p).status = .running ∧
      Await.proc q ∈ (w.proc p).awaits ∧ p ∉ (w.proc q).waiters ∧
      ∀ e' ∈ w.ev.pending, e'.item.a = aProc → e'.item.b = p + 1 → e' = e :=
  h.procWake_owned he ha

/-- `NoStaleInv`, event-done wake-ups: a pending (aEvent) event addressed to `p` is owned by the `wait_event k` that `p`
    is suspended in right now; the awaited event is no longer scheduled and `p` is no longer registered with it; it is
    the only one -/
theorem no_stale_event_wakeup {w : World} (h : PInvB w) {e : HTag} (he : e ∈ w.ev.pending) (ha : e.item.a = aEvent) :
    ∃ p k, e.item.b = p + 1 ∧ (w.proc p).blocked = some (.waitEvent k) ∧ (w.proc p).status = .running ∧
      Await.event k ∈ (w.proc p).awaits ∧ p ∉ evWaitersOf w k ∧ k ∉ keys w.ev.pending ∧
      ∀ e' ∈ w.ev.pending, e'.item.a = aEvent → e'.item.b = p + 1 → e' = e :=
  h.eventWake_owned he ha

/-- once `wait_process` / `wait_event` has returned, nothing that belonged to it can resume the process later: a process
    that is not suspended in such a wait is on no waiter list, in no event's waiter list, has no PROCESS / EVENT awaitable,
    and no process-end or event-done wake-up addressed to it is pending -/
theorem returned_wait_leaves_nothing {w : World} (h : PInvB w) (p : Pid)
    (hf : ∀ q, (w.proc p).blocked ≠ some (.waitProc q)) (hg : ∀ k, (w.proc p).blocked ≠ some (.waitEvent k)) :
    (∀ x, p ∉ (w.proc x).waiters) ∧ (∀ k l, (k, l) ∈ w.evWaiters → p ∉ l) ∧
    procAw w p = [] ∧ evAw w p = [] ∧
    (∀ e ∈ w.ev.pending, e.item.a = aProc ∨ e.item.a = aEvent → e.item.b ≠ p + 1) :=
  h.returned_clean p hf hg

/-- the epilogues that establish it: `wait_process q` / `wait_event k` continued with any value withdraw the registration
    or, if the wake-up is already pending, that wake-up -/
theorem wait_epilogues {fr : Pid → Option Frame} {w : World} (hp : PInv noEx fr w) (p : Pid) (sig : Int) :
    (∀ q, fr p = some (.waitProc q) →
      PInv noEx (setFrame fr p none) (resumeFrame (w.modProc p fun y => { y with blocked := none }) p (.waitProc q) sig).1) ∧
    (∀ k, fr p = some (.waitEvent k) →
      PInv noEx (setFrame fr p none) (resumeFrame (w.modProc p fun y => { y with blocked := none }) p (.waitEvent k) sig).1) :=
  ⟨fun _ hfr => hp.resume_waitProc hfr (noEx_not p) sig, fun _ hfr => hp.resume_waitEvent hfr (noEx_not p) sig⟩

/- non-vacuity: a world with two processes and a pending start event satisfies `InitOk`, hence `PInvB` -/
example : ∃ w : World, InitOk w ∧ w.ev.pending ≠ [] ∧ w.procs.size = 2 := by
  refine ⟨pushEv { procs := #[{}, {}] } aStart 1 0 0 0, ⟨?_, fun _ => ?_, fun _ => ?_, rfl, ?_, ?_⟩, by simp, rfl⟩
  · exact pushEv_evinv (w := { procs := #[{}, {}] }) _ _ _ _ _ (by decide) (Event.init_inv 0)
  · unfold World.proc; simp only [pushEv_procs]
    rename_i p
    rcases p with _ | _ | p <;> rfl
  · unfold World.proc; simp only [pushEv_procs]
    rename_i p
    rcases p with _ | _ | p <;> rfl
  · intro e he
    simp only [pushEv_pending, List.mem_cons, List.not_mem_nil, or_false] at he
    subst he; decide
  · intro e he
    simp only [pushEv_pending, List.mem_cons, List.not_mem_nil, or_false] at he
    subst he; decide

/-! ### pattern cancel of the user events: `cmb_event_pattern_cancel(user_action, ANY, ANY)` = command `cancelUserAll`

The library cancels every match through `cmb_event_cancel`, so the waiters (`cmb_process_wait_event`) of every cancelled
event are notified with CANCELLED exactly as by a cancel by handle.  The order in which the matches are cancelled (heap
array order in the library, pending-list order in the model) is left open by the header; nothing below depends on it
except the order of the new handles in `new_events_subjects` (Sim/S5Pattern.lean). -/

/-- `pattern_cancel_wakes_waiters`: after `cancelUserAll`, executed by any process `p` in any state satisfying the kernel
    invariant (handles unique, nothing pending in the past):
    (1) no user event is pending;
    (2) the old events that are left are exactly the old events that were not user events, in their old order;
    (3) every new event (handle beyond the old counter) is the wake-up of a process registered as a waiter of one of the
        cancelled user events: action aEvent, CANCELLED, at the current time, with that process's own priority —
        nobody else gets one;
    (4) the number of new events addressed to a process `q` is the number of its registrations with cancelled events
        (`pattern_cancel_exactly_one`: in a reachable state that is exactly one for every waiter);
    (5) the registrations with the cancelled events are gone, all others are untouched;
    (6) the clock and the process table are unchanged;
    (7) the command returns the number of user events that were pending. -/
theorem pattern_cancel_wakes_waiters (w : World) (p : Pid) (hi : EvInv w.ev) :
    (∀ e ∈ (execCmd w p .cancelUserAll).1.ev.pending, e.item.a ≠ aUser) ∧
    (execCmd w p .cancelUserAll).1.ev.pending.filter (fun e => decide (e.key ≤ w.ev.counter)) =
      w.ev.pending.filter (fun e => decide (e.item.a ≠ aUser)) ∧
    (∀ e ∈ (execCmd w p .cancelUserAll).1.ev.pending, w.ev.counter < e.key →
      ∃ h ∈ userPending w, ∃ q ∈ (w.evWaiters.lookup h).getD [],
        e = mkEv e.key aEvent (q + 1) sigCancelled w.now (w.proc q).prio) ∧
    (∀ q, ((execCmd w p .cancelUserAll).1.ev.pending.filter
        (fun e => decide (w.ev.counter < e.key) && decide (e.item.b = q + 1))).length = (cancelledWaiters w).count q) ∧
    (execCmd w p .cancelUserAll).1.evWaiters = w.evWaiters.filter (fun x => decide (x.1 ∉ userPending w)) ∧
    (execCmd w p .cancelUserAll).1.now = w.now ∧ (execCmd w p .cancelUserAll).1.procs = w.procs ∧
    (match (execCmd w p .cancelUserAll).2 with
      | .ret v extra => v = ((w.ev.pending.filter fun e => decide (e.item.a = aUser)).length : Int) ∧ extra = ""
      | _ => False) := by
  have hx : execCmd w p .cancelUserAll = ((cancelUserAll w).1, .ret (cancelUserAll w).2 "") := rfl
  obtain ⟨_, hw, _, hnow, hprocs, hcnt⟩ := cancelUserAll_closed w hi
  rw [hx]
  refine ⟨(cancelUserAll_spec w hi).2.1, old_events w hi, fun e he hk => new_event_is_wake w hi he hk,
    fun q => new_events_count w hi q, hw, hnow, hprocs, ?_⟩
  show ((cancelUserAll w).2 : Int) = _ ∧ "" = ""
  rw [hcnt]; exact ⟨rfl, rfl⟩

/-- in a reachable state (`PInvB`: a process is registered with at most one event, once) every process that was waiting
    for one of the cancelled user events has exactly one new wake-up pending — by (3) above it is (aEvent, CANCELLED), at
    the current time, with its own priority — and nobody else has any -/
theorem pattern_cancel_exactly_one {w : World} (hp : PInvB w) (p q : Pid) :
    ((execCmd w p .cancelUserAll).1.ev.pending.filter
        (fun e => decide (w.ev.counter < e.key) && decide (e.item.b = q + 1))).length =
      if ∃ h ∈ userPending w, q ∈ (w.evWaiters.lookup h).getD [] then 1 else 0 := by
  rw [(pattern_cancel_wakes_waiters w p hp.ei).2.2.2.1 q]
  exact cancelledWaiters_count hp q

/- non-vacuity: the hypothesis holds in `patternWorld`; both user events are cancelled (the command returns 2), process 0
   and process 1 each get one (aEvent, CANCELLED) wake-up at the current time with their own priority, process 2 gets
   none, no registration is left -/
example : EvInv patternWorld.ev ∧ userPending patternWorld = [2, 1] ∧
    ((execCmd patternWorld 2 .cancelUserAll).1.ev.pending.map fun e => (e.key, e.item.a, e.item.b, decSig e.item.c, e.d, e.i)) =
      [(4, aEvent, 1, sigCancelled, 0, 1), (3, aEvent, 2, sigCancelled, 0, 2)] ∧
    (execCmd patternWorld 2 .cancelUserAll).1.evWaiters = [] ∧
    (match (execCmd patternWorld 2 .cancelUserAll).2 with | .ret v _ => v = 2 | _ => False) := by
  refine ⟨?_, by decide, by decide, by decide, (by show ((cancelUserAll patternWorld).2 : Int) = 2; decide)⟩
  exact pushEv_evinv _ _ _ _ _ (by decide) (pushEv_evinv _ _ _ _ _ (by decide) (Event.init_inv 0))

/-! ### TimerInv (I_timers): an invariant of every reachable state, for all programs

`TInvB w`: (t1) a TIME(h) awaitable (h ≠ 0) of `p` has its pending (aTime) event with handle h addressed to `p`, or the
handle has been cancelled — armed timers stay armed until they fire or are cancelled; (t2) every pending (aTime) event
addressed to `p` is registered as TIME(handle) in `p`'s awaits — so it is cancelled when the process is interrupted,
preempted, stopped or ends (`cancel_awaiteds` goes through the awaits); handles are at most the counter; each handle
occurs once. TIME(0) is the dummy a refused arming (duration < 0: the kernel refuses, a fault is recorded) leaves. -/

theorem timer_inv_init {w : World} (h : InitOk w) : TInvB w := h.tinv

theorem timer_inv_dispatch {w w' : World} (hp : TInvB w) (hd : dispatch w = some w') : TInvB w' := hp.dispatch hd

theorem timer_inv_reachable {w w' : World} (h : Reach w w') (hp : TInvB w) : TInvB w' := hp.reach h

theorem timer_inv_run (fuel : Nat) (w : World) (hp : TInvB w) : TInvB (runAll fuel w) := hp.runAll fuel w

/-- what it says -/
theorem timer_inv_means {w : World} (h : TInvB w) :
    (∀ p k, k ≠ 0 → Await.time k ∈ (w.proc p).awaits →
      (∃ e ∈ w.ev.pending, e.key = k ∧ e.item.a = aTime ∧ e.item.b = p + 1) ∨ k ∈ w.ev.cancelled) ∧
    (∀ e ∈ w.ev.pending, e.item.a = aTime → ∀ p, e.item.b = p + 1 → Await.time e.key ∈ (w.proc p).awaits) ∧
    (∀ p k, Await.time k ∈ (w.proc p).awaits → k ≤ w.ev.counter) ∧
    (∀ p, ((timeAw w p).filter (· ≠ .time 0)).Nodup) :=
  ⟨h.t1, fun e he ha p hb => h.t2 e he ha p hb (noEx_not p), h.tle, h.tnd⟩

/-- the timer primitives keep it: arming (by an existing process), cancelling, clearing, `cancel_awaiteds`, the end of a
    process; after `timers_clear` / `cancel_awaiteds` no timer of the process is left (t2 with an empty registration) -/
theorem timer_primitives {ex : Pid → Prop} {w : World} (hp : TInv ex w) (p : Pid) :
    (∀ d sig, p < w.procs.size → TInv ex (timerAdd w p d sig).1) ∧ (∀ k, TInv ex (timerCancel w p k).1) ∧
    TInv ex (timersClear w p) ∧ TInv ex (cancelAwaiteds w p) ∧ (∀ v s, TInv ex (finishProc w p v s)) :=
  ⟨fun d sig hlt => hp.timerAdd_fst p d sig hlt, fun k => hp.timerCancel_fst p k, hp.timersClear p, hp.cancelAwaiteds p,
   fun v s => hp.finishProc p v s⟩

/- non-vacuity: the initial world satisfies the kernel invariant, so the hypotheses `EvInv w.ev`, `0 ≤ d` are satisfiable,
   and a hold really arms an event there -/
example : EvInv ({} : World).ev ∧ (holdWorld {} 0 5).ev.pending.length = 1 := ⟨Event.init_inv 0, rfl⟩

/-! ### the timer API applied to ANOTHER process: commands `timersClearOf q` / `timerAddOf q d sig`

`cmb_process_timers_clear(pp)` and `cmb_process_timer_add(pp, dur, sig)` take the process as an argument.  Applied to a process
`q` that is suspended in a wait, `timers_clear` has to skip the non-timer awaitables (the registration of the pending wait)
standing in front of the timers in `q`'s awaits list.  Both commands are skipped unless `q` is a started, unfinished process
(`timer_of_skipped`).  A `hold` is a timer with the success code registered like any other (`cmb_process_hold` arms it with
`timer_add`): clearing the timers of a process that is in `hold` cancels the hold's own wake-up, and the process stays
suspended until something else (interrupt, resume, stop) reaches it — in the library and in the model alike. -/

/-- `timers_clear_of_exact`: `timersClearOf q`, executed by any process `p` in a state satisfying the timer invariant
    (`TInvB`, every reachable state: `timer_inv_reachable`), with `q` started and unfinished — running or suspended in
    whatever wait. Afterwards:
    (1) `q`'s record is the old one with the TIME awaitables removed from its awaits list: every other awaitable (the
        RESOURCE / PROCESS / EVENT registration of the wait it is suspended in) is still there, in the same order, and the frame
        it is suspended in, its status, priority, waiters, holdings, program counter and variables are unchanged — `q` stays
        suspended in the wait it was in;  (2) no TIME awaitable of `q` is left;
    (3) no timer event addressed to `q` is pending;
    (4) every other process is untouched;
    (5) the old events that are left are exactly the old events that were not timer events of `q`, in their old order;
    (6) every new event (handle beyond the old counter) is the (aEvent, CANCELLED) wake-up, at the current time and with its own
        priority, of a process that was registered (`wait_event`) as a waiter of one of the cleared timer events;
    (7) when nobody waits for a timer event of `q` (the variable discipline of the scenario language: `wait_event` on user
        events only) the event queue is exactly the old one without `q`'s timer events;
    (8) the registrations with every event that is not a cleared timer are untouched;
    (9) the waiting lists of all guards, the resources, pools, buffers, queues, conditions, flags, the clock and the fault
        flag are unchanged;
    (10) the command returns 0. -/
theorem timers_clear_of_exact {w : World} (ht : TInvB w) (p q : Pid) (hr : (w.proc q).status = .running) :
    ∀ w', w' = (execCmd w p (.timersClearOf q)).1 →
    w'.proc q = { w.proc q with awaits := (w.proc q).awaits.filter (fun a => !isTimeA a) } ∧
    (∀ k, Await.time k ∉ (w'.proc q).awaits) ∧
    (∀ e ∈ w'.ev.pending, e.item.a = aTime → e.item.b ≠ q + 1) ∧
    (∀ x, x ≠ q → w'.proc x = w.proc x) ∧
    w'.ev.pending.filter (fun e => decide (e.key ≤ w.ev.counter)) =
      w.ev.pending.filter (fun e => !(decide (e.item.a = aTime) && decide (e.item.b = q + 1))) ∧
    (∀ e ∈ w'.ev.pending, w.ev.counter < e.key → ∃ h, Await.time h ∈ (w.proc q).awaits ∧
      ∃ x ∈ (w.evWaiters.lookup h).getD [], e = mkEv e.key aEvent (x + 1) sigCancelled w.now (w.proc x).prio) ∧
    ((∀ k, Await.time k ∈ (w.proc q).awaits → (w.evWaiters.lookup k).getD [] = []) →
      w'.ev.pending = w.ev.pending.filter (fun e => !(decide (e.item.a = aTime) && decide (e.item.b = q + 1)))) ∧
    (∀ k, Await.time k ∉ (w.proc q).awaits → w'.evWaiters.lookup k = w.evWaiters.lookup k) ∧
    (w'.guards = w.guards ∧ w'.res = w.res ∧ w'.pools = w.pools ∧ w'.bufs = w.bufs ∧ w'.oqs = w.oqs ∧ w'.pqs = w.pqs ∧
      w'.conds = w.conds ∧ w'.flags = w.flags ∧ w'.now = w.now ∧ w'.fault = w.fault) ∧
    (match (execCmd w p (.timersClearOf q)).2 with | .ret v extra => v = 0 ∧ extra = "" | _ => False) := by
  intro w' hw'
  rw [execCmd_timersClearOf w p q hr] at hw' ⊢
  subst hw'
  obtain ⟨hc, hno, hold⟩ := timersClear_exact ht q
  have hlt : q < w.procs.size := lt_of_running hr
  have hrec := hc.target hlt
  rw [dropTimers_eq] at hrec
  refine ⟨hrec, ?_, hno, hc.others, hold, ?_, fun hnw => timersClear_no_waiters ht q hnw,
    fun k hk => hc.kept k (fun h => hk (mem_timerHandles.1 h)),
    ⟨hc.guards, hc.res, hc.pools, hc.bufs, hc.oqs, hc.pqs, hc.conds, hc.flags, hc.now, hc.fault⟩, ⟨rfl, rfl⟩⟩
  · intro k hk
    rw [hc.target hlt] at hk
    exact time_not_mem_dropTimers _ k hk
  · intro e he hk
    obtain ⟨h, hh, x, hx, heq⟩ := hc.new e he hk
    exact ⟨h, mem_timerHandles.1 hh, x, hx, heq⟩

/-- `timer_add_of_exact`: `timerAddOf q d sig` with `d ≥ 0`, executed by any process `p` in any state, `q` started and
    unfinished: exactly one new event is pending — the timer (action aTime) addressed to `q`, carrying the signal, due at
    now + d, with `q`'s priority, under the next handle — in front of the old ones; it is registered as TIME(handle) at the head
    of `q`'s awaits list and nothing else of `q`'s record changes (`q` stays suspended where it was); every other process,
    the registrations with events, the waiting lists, the objects, the clock and the fault flag are untouched; the command
    returns 0 (and logs the handle, which the program does not keep). -/
theorem timer_add_of_exact (w : World) (p q : Pid) (d sig : Int) (hd : 0 ≤ d) (hr : (w.proc q).status = .running) :
    ∀ w', w' = (execCmd w p (.timerAddOf q d sig)).1 →
    w'.ev.pending = mkEv (w.ev.counter + 1) aTime (q + 1) sig (w.now + d) (w.proc q).prio :: w.ev.pending ∧
    w'.ev.counter = w.ev.counter + 1 ∧
    w'.proc q = { w.proc q with awaits := .time (w.ev.counter + 1) :: (w.proc q).awaits } ∧
    (∀ x, x ≠ q → w'.proc x = w.proc x) ∧
    (w'.evWaiters = w.evWaiters ∧ w'.guards = w.guards ∧ w'.res = w.res ∧ w'.pools = w.pools ∧ w'.bufs = w.bufs ∧
      w'.oqs = w.oqs ∧ w'.pqs = w.pqs ∧ w'.conds = w.conds ∧ w'.flags = w.flags ∧ w'.now = w.now ∧ w'.fault = w.fault) ∧
    (match (execCmd w p (.timerAddOf q d sig)).2 with
      | .ret v extra => v = 0 ∧ extra = s!"h={w.ev.counter + 1}" | _ => False) := by
  intro w' hw'
  rw [execCmd_timerAddOf w p q d sig hr, timerAdd_exact w q d sig hd] at hw' ⊢
  subst hw'
  have hlt : q < w.procs.size := lt_of_running hr
  refine ⟨rfl, rfl, ?_, ?_, ⟨rfl, rfl, rfl, rfl, rfl, rfl, rfl, rfl, rfl, rfl, rfl⟩, ⟨rfl, rfl⟩⟩
  · show ((pushEv w aTime (q + 1) sig (w.now + d) (w.proc q).prio).modProc q _).proc q = _
    rw [modProc_proc_self (pushEv w aTime (q + 1) sig (w.now + d) (w.proc q).prio) _ (show q < _ from hlt)]; rfl
  · intro x hx
    show ((pushEv w aTime (q + 1) sig (w.now + d) (w.proc q).prio).modProc q _).proc x = _
    rw [modProc_proc_ne (pushEv w aTime (q + 1) sig (w.now + d) (w.proc q).prio) _ hx]; rfl

/-- both commands are skipped — nothing changes — when the target has not been started or has finished -/
theorem timer_of_skipped (w : World) (p q : Pid) (hr : (w.proc q).status ≠ .running) :
    execCmd w p (.timersClearOf q) = (w, .skip) ∧ ∀ d sig, execCmd w p (.timerAddOf q d sig) = (w, .skip) :=
  execCmd_timerOf_skip w p q hr

/- non-vacuity: `clearOfWorld` (Sim/S7TimerOf: the scenario `res / proc 9: acq 0, hold 10 / proc 5: tadd 0 3 -5, tadd 1 4 -7,
   acq 0 / proc 1: hold 1, tclearo 1` after its three start events) is a reachable state of a loaded scenario, so `TInvB` holds;
   process 1 is suspended in `acquire 0` with awaits [RESOURCE 0, TIME 6, TIME 5]; `timersClearOf 1` executed by process 2
   leaves it suspended in that acquire with awaits [RESOURCE 0], the two timer events (due at 3 and 4) are gone, the hold
   wake-ups of processes 0 and 2 are still pending; `timerAddOf 1 2 11` puts one timer event for process 1 at time 2 with
   priority 5 in front and registers it -/
example : TInvB clearOfWorld ∧ (clearOfWorld.proc 1).status = .running ∧
    (clearOfWorld.proc 1).awaits = [.guard 0, .time 6, .time 5] ∧
    (match (clearOfWorld.proc 1).blocked with | some (.acquire 0) => true | _ => false) = true ∧
    (clearOfWorld.ev.pending.map fun e => (e.key, e.item.a, e.item.b, decSig e.item.c, e.d, e.i)) =
      [(7, aTime, 3, 0, 1, 1), (6, aTime, 2, -7, 4, 5), (5, aTime, 2, -5, 3, 5), (4, aTime, 1, 0, 10, 9)] ∧
    ((execCmd clearOfWorld 2 (.timersClearOf 1)).1.proc 1).awaits = [.guard 0] ∧
    (match ((execCmd clearOfWorld 2 (.timersClearOf 1)).1.proc 1).blocked with | some (.acquire 0) => true | _ => false) = true ∧
    ((execCmd clearOfWorld 2 (.timersClearOf 1)).1.ev.pending.map fun e => (e.key, e.item.a, e.item.b, decSig e.item.c, e.d, e.i)) =
      [(7, aTime, 3, 0, 1, 1), (4, aTime, 1, 0, 10, 9)] ∧
    ((execCmd clearOfWorld 2 (.timerAddOf 1 2 11)).1.proc 1).awaits = [.time 8, .guard 0, .time 6, .time 5] ∧
    (((execCmd clearOfWorld 2 (.timerAddOf 1 2 11)).1.ev.pending.map fun e => (e.key, e.item.a, e.item.b, decSig e.item.c, e.d, e.i)).head? =
      some (8, aTime, 2, 11, 2, 5)) := by
  refine ⟨clearOfWorld_tinv, ?_, ?_, ?_, ?_, ?_, ?_, ?_, ?_, ?_⟩ <;> decide +kernel

/-! ### the whole of NoStaleInv, I_guard and "exactly one cause": `AllInv`

`AllInv w` = `PInvB` ∧ `TInvB` ∧ `GInvB` ∧ `NRInv` ∧ the static side conditions `SideOk`:
* `GInvB`: every waiting list is a well-formed hashheap; a queued key is a process that awaits exactly that guard and is
  suspended in a wait on it; a process awaits at most one guard; a pending grant (aRes, SUCCESS) or condition wake-up
  (aCond) is addressed to a process that still awaits its guard, is suspended in the wait, is already off the waiting
  list, and is the only one for that process; a pending timer carrying SUCCESS is the timer of the hold its process is
  suspended in; interrupts, resumes and preemptions never carry SUCCESS; signal words are < 2⁶⁴.
* `NRInv`: a process that is not running (created / finished) awaits nothing and has no frame.
* `SideOk` (hypotheses on the scenario, all static): `CondSep` — the guard of a condition is not the guard of any other
  object; `ScriptsOk` — the documented precondition that timer / resume / interrupt signals are not SUCCESS
  (`cmb_process_resume(p, 0)` and `interrupt(p, 0, _)` are refused by the model, so 0 itself is allowed in the script).
It is preserved by `dispatch` for all programs, through every command, every epilogue, `cancel_awaiteds`, process end,
dropping of resources, signals incl. forwarded ones, priority changes and same-instant coincidences. -/

theorem all_inv_init {w : World} (h : InitOkG w) (hs : SideOk w) : AllInv w := h.all hs

theorem all_inv_dispatch {w w' : World} (h : AllInv w) (hd : dispatch w = some w') : AllInv w' := h.dispatch hd

theorem all_inv_reachable {w w' : World} (hr : Reach w w') (h : AllInv w) : AllInv w' := h.reach hr

theorem all_inv_run (fuel : Nat) (w : World) (h : AllInv w) : AllInv (runAll fuel w) := h.runAll fuel w

/-- the grant / guard part alone (it needs `PInvB` and `NRInv` of the same state) -/
theorem guard_inv_dispatch {w w' : World} (hg : GInvB w) (hp : PInvB w) (hnr : NRInv w) (hs : SideOk w)
    (hd : dispatch w = some w') : GInvB w' := hg.dispatch hp hnr hs hd

/-- created and finished processes are inert, in every reachable state, for all programs (no side condition) -/
theorem non_running_inert {w w' : World} (hr : Reach w w') (h : NRInv w) (p : Pid) (hs : (w'.proc p).status ≠ .running) :
    (w'.proc p).awaits = [] ∧ (w'.proc p).blocked = none := NRInv.reach hr h p hs

/-- every waiting list is a well-formed hashheap in every reachable state: the hypothesis of the C06 / C08 / C13
    theorems about signals always holds -/
theorem guards_wellformed {w w' : World} (hr : Reach w w') (h : AllInv w) : AllGWF w' := (h.reach hr).g.gw

/-- I_guard -/
theorem guard_inv_means {w : World} (h : AllInv w) :
    (∀ g k, queued w g k → ∃ p f, k = p + 1 ∧ p < w.procs.size ∧ Await.guard g ∈ (w.proc p).awaits ∧
      guardAw w p = [.guard g] ∧ (w.proc p).blocked = some f ∧ FrameOn w f g) ∧
    (∀ p, guardAw w p = [] ∨ ∃ g f, (w.proc p).blocked = some f ∧ FrameOn w f g ∧ guardAw w p = [.guard g]) :=
  ⟨fun _ _ hq => h.g.queued_means hq, h.g.one_guard⟩

/-- no stale grants / condition wake-ups -/
theorem no_stale_grant {w : World} (h : AllInv w) {e : HTag} (he : e ∈ w.ev.pending) (hg : isGrant e) :
    ∃ p g f, e.item.b = p + 1 ∧ (w.proc p).blocked = some f ∧ FrameOn w f g ∧ guardAw w p = [.guard g] ∧
      ¬ queued w g (p + 1) ∧ (∀ g', ¬ queued w g' (p + 1)) ∧
      ∀ e' ∈ w.ev.pending, isGrant e' → e'.item.b = p + 1 → e' = e := h.g.grant_owned he hg

theorem no_stale_cond_wakeup {w : World} (h : AllInv w) {e : HTag} (he : e ∈ w.ev.pending) (ha : e.item.a = aCond) :
    ∃ c, (w.proc (e.item.b - 1)).blocked = some (.condWait c) := h.g.cond_owned he ha

/-- no stale hold wake-ups: SUCCESS from a timer only to the hold that armed it -/
theorem no_stale_hold_wakeup {w : World} (h : AllInv w) {e : HTag} (he : e ∈ w.ev.pending) (ha : e.item.a = aTime)
    (hc : e.item.c = 0) : ∃ p, e.item.b = p + 1 ∧ (w.proc p).blocked = some (.hold e.key) := h.g.hold_owned he ha hc

theorem success_never_by_interrupt {w : World} (h : AllInv w) {e : HTag} (he : e ∈ w.ev.pending) (hc : e.item.c = 0) :
    e.item.a ≠ aIntr ∧ e.item.a ≠ aResume ∧ e.item.a ≠ aPreempt := h.g.nonzero he hc

/-- NoStaleInv, all kinds: the cause of every pending SUCCESS wake-up is the call its process is suspended in -/
theorem no_stale_inv {w : World} (h : AllInv w) {e : HTag} (he : e ∈ w.ev.pending) (hc : e.item.c = 0)
    (hk : isWake e.item.a) {p : Pid} (hb : e.item.b = p + 1) : Cause w e p := h.success_cause he hc hk hb

/-- "for exactly one cause": at most one SUCCESS wake-up is pending for any process -/
theorem one_cause {w : World} (h : AllInv w) {e1 e2 : HTag} (h1 : e1 ∈ w.ev.pending) (h2 : e2 ∈ w.ev.pending)
    (hc1 : e1.item.c = 0) (hc2 : e2.item.c = 0) (hk1 : isWake e1.item.a) (hk2 : isWake e2.item.a) {p : Pid}
    (hb1 : e1.item.b = p + 1) (hb2 : e2.item.b = p + 1) : e1 = e2 := h.one_success_wakeup h1 h2 hc1 hc2 hk1 hk2 hb1 hb2

/-- whatever pending event would resume `p` with SUCCESS (any action on which the dispatcher resumes a process) is the
    legitimate wake-up of the call `p` is suspended in -/
theorem success_only_for_own_cause {w : World} (h : AllInv w) {e : HTag} (he : e ∈ w.ev.pending) (hc : e.item.c = 0)
    (hk : isResuming e.item.a) {p : Pid} (hb : e.item.b = p + 1) : isWake e.item.a ∧ Cause w e p :=
  h.success_resume he hc hk hb

/-- with `hold_exact`: a hold returns SUCCESS only through the timer it armed, i.e. only at start + duration -/
theorem hold_success_only_own_timer {w : World} (h : AllInv w) {e : HTag} (he : e ∈ w.ev.pending)
    (hc : e.item.c = 0) (hk : isResuming e.item.a) {p : Pid} (hb : e.item.b = p + 1) {k : Nat}
    (hf : (w.proc p).blocked = some (.hold k)) : e.item.a = aTime ∧ e.key = k :=
  h.hold_success_only_own_timer he hc hk hb hf

/-- end to end: a process executes `hold d` (d ≥ 0) at time t₀. In any later state `w` (satisfying the invariant) in
    which it is still suspended in that hold, if the event `e` that `dispatch` takes next (`e.key = w'.ev.current`) is
    addressed to the process, is of a kind on which the dispatcher resumes a process, and carries SUCCESS, then the clock
    after that dispatch is exactly t₀ + d: a hold returns SUCCESS at start + duration and at no other time -/
theorem hold_success_exactly_at_deadline {w0 : World} (p : Pid) {d : Int} (hd : 0 ≤ d) (hi : EvInv w0.ev) {w w' : World}
    (hreach : Reach (execCmd w0 p (.hold d)).1 w) (hinv : AllInv w) (hdisp : dispatch w = some w')
    (hf : (w.proc p).blocked = some (.hold (w0.ev.counter + 1)))
    {e : HTag} (he : e ∈ w.ev.pending) (hcur : e.key = w'.ev.current) (hb : e.item.b = p + 1)
    (hk : isResuming e.item.a) (hc : e.item.c = 0) : w'.now = w0.now + d ∧ e.item.a = aTime := by
  obtain ⟨ha, hkey⟩ := hinv.hold_success_only_own_timer he hc hk hb hf
  exact ⟨(S3.hold_exact p hd hi hreach hdisp (by rw [← hcur, hkey])).1, ha⟩

/- non-vacuity: a world with two processes (one with a program that holds and arms a timer), a guard with an empty
   well-formed waiting list, a condition on that guard and a pending start event satisfies `InitOkG` and `SideOk`,
   hence `AllInv`, and so does every state of its run -/
example : ∃ w : World, InitOkG w ∧ SideOk w ∧ w.ev.pending ≠ [] ∧ w.procs.size = 2 ∧ w.guards.size = 1 ∧
    (w.proc 0).script.size = 2 ∧ ∀ fuel, AllInv (runAll fuel w) := by
  obtain ⟨s0, _, hwf0, habs0, _⟩ := init_spec (lt := guard_queue_check) 3 (by decide) (by decide)
  let w0 : World := { procs := #[{ script := #[(.hold 1, "hold"), (.timerAdd 0 1 5, "timer")] }, {}], guards := #[{ q := s0 }], conds := #[0] }
  have hproc : ∀ p, (w0.proc p).awaits = [] ∧ (w0.proc p).waiters = [] ∧ (w0.proc p).blocked = none := by
    intro p; unfold World.proc
    rcases p with _ | _ | p <;> exact ⟨rfl, rfl, rfl⟩
  have hI : InitOkG (pushEv w0 aStart 1 0 0 0) ∧ SideOk (pushEv w0 aStart 1 0 0 0) := by
    refine ⟨⟨⟨?_, fun p => (hproc p).1, fun p => (hproc p).2.1, rfl, ?_, ?_⟩, ?_, (by show 2 < 2 ^ 31; decide), ?_,
      fun p => (hproc p).2.2, ?_⟩, ⟨?_, ?_⟩⟩
    · exact pushEv_evinv (w := w0) _ _ _ _ _ (Int.le_refl 0) (Event.init_inv 0)
    · intro e he
      simp only [pushEv_pending, List.mem_cons] at he
      rcases he with rfl | he
      · show aStart ≠ aProc ∧ aStart ≠ aEvent; decide
      · cases he
    · intro e he
      simp only [pushEv_pending, List.mem_cons] at he
      rcases he with rfl | he
      · show aStart ≠ aTime; decide
      · cases he
    · intro g gd hg
      rcases g with _ | g
      · cases hg; exact hwf0
      · cases hg
    · intro g k ⟨gd, hg, hk⟩
      rcases g with _ | g
      · cases hg; change k ∈ keys (abs s0) at hk; rw [habs0] at hk; cases hk
      · cases hg
    · intro e he
      simp only [pushEv_pending, List.mem_cons] at he
      rcases he with rfl | he
      · exact harmless_mkEv (by decide)
      · cases he
    · intro c g f hc hon
      rcases c with _ | c
      · cases hc
        cases f <;> first | exact ⟨_, rfl⟩ | (simp [FrameOn, pushEv, w0] at hon)
      · cases hc
    · intro p i c t hs
      rcases p with _ | _ | p
      · rcases i with _ | _ | i
        · cases hs; trivial
        · cases hs; show encSig 5 ≠ 0; decide
        · cases hs
      · cases hs
      · cases hs
  exact ⟨pushEv w0 aStart 1 0 0 0, hI.1, hI.2, by simp, rfl, rfl, rfl, fun fuel => (hI.1.all hI.2).runAll fuel _⟩

/-! ### the hypotheses hold for every scenario the harness can express

`Built w` (Sim/S3Built): `w` is obtained from the empty world by the construction steps of the scenario loader
(Drivers/SimMain.lean: `res`, `pool`, `buf`, `oq`, `pq`, `cond` with fresh guards, `proc` with a program, `sub`scriptions,
autostart events), where every command of every program satisfies the documented precondition `CmdOk`. -/

theorem loader_worlds_satisfy_invariant {w : World} (h : Built w) (hsz : w.procs.size < 2 ^ 31) :
    InitOkG w ∧ SideOk w ∧ AllInv w ∧ ∀ fuel, AllInv (runAll fuel w) :=
  ⟨(h.binv.initOk hsz).1, (h.binv.initOk hsz).2, h.allInv hsz, h.run hsz⟩

/- non-vacuity: a scenario with a resource, a condition subscribed to it, and two processes that compete for the resource -/
example : Built (autostart (autostart (subscribe (addProc (addProc (addCond (addRes {})) 0
    #[(.acquire 0, "acquire 0"), (.hold 1, "hold 1"), (.release 0, "release 0")]) 1
    #[(.timerAdd 0 2 7, "timer"), (.acquire 0, "acquire 0"), (.condWait 0 0 0 0, "wait")]) 0 1) 0) 1) := by
  refine .start 1 (.start 0 (.sub 0 1 (.proc 1 _ (.proc 0 _ (.cond (.res .empty)) ?_) ?_)))
  · intro i c t h
    rcases i with _ | _ | _ | i <;> cases h <;> trivial
  · intro i c t h
    rcases i with _ | _ | _ | i
    · cases h; show encSig 7 ≠ 0; decide
    · cases h; trivial
    · cases h; trivial
    · cases h

end CimbaModel.Props.C04
