/-
  C04 — waits return at the right time for exactly one cause; no stale wake-ups.
  Property theorems only (the process-layer model is CimbaModel/Sim; helper lemmas in CimbaModel/Sim/*).
-/
import CimbaModel.Sim.Basic

namespace CimbaModel.Props.C04
open CimbaModel CimbaModel.Sim CimbaModel.Event

/-- a timer (and hence a hold, which is a timer with the success code) armed for `d ≥ 0` is a pending event at
    exactly now + d, addressed to the process and carrying the signal; arming does not move the clock -/
theorem timer_due_exactly (w : World) (p : Pid) (d sig : Int) (hd : 0 ≤ d) :
    (∃ e ∈ (timerAdd w p d sig).1.ev.pending, e.key = (timerAdd w p d sig).2 ∧ e.d = w.now + d ∧ e.item.b = p + 1 ∧
        e.item.c = encSig sig ∧ e.item.a = aTime) ∧
    (timerAdd w p d sig).1.now = w.now :=
  timerAdd_due w p d sig hd

/-- every wake-up the library schedules for a process goes into the event queue at the requested time,
    as one new event, without touching the clock, the processes or the resources -/
theorem wakeup_scheduling_is_pure (w : World) (act subj : Nat) (sig t pri : Int) (ht : w.now ≤ t) :
    (sched w act subj sig t pri).1.ev.pending =
      { key := w.ev.counter + 1, item := ⟨act, subj, encSig sig, 0⟩, d := t, i := pri } :: w.ev.pending ∧
    (sched w act subj sig t pri).1.now = w.now ∧ (sched w act subj sig t pri).1.procs = w.procs :=
  ⟨(sched_ok w act subj sig t pri ht).2.1, (sched_ok w act subj sig t pri ht).2.2.1, (sched_ok w act subj sig t pri ht).2.2.2.1⟩

/-- signals survive the encoding into the event's object word -/
theorem signal_roundtrip (s : Int) (h : -(2 ^ 63 : Int) ≤ s ∧ s < 2 ^ 63) : decSig (encSig s) = s := by
  unfold decSig encSig
  by_cases hs : 0 ≤ s
  · have : s % (2 ^ 64 : Int) = s := Int.emod_eq_of_lt hs (by omega)
    rw [this]
    have h2 : (s.toNat : Int) = s := Int.toNat_of_nonneg hs
    split
    · exact h2
    · rename_i hlt; exfalso; apply hlt
      have : s.toNat < 2 ^ 63 := by omega
      exact this
  · have hneg : s < 0 := by omega
    have : s % (2 ^ 64 : Int) = s + 2 ^ 64 := by
      rw [Int.emod_eq_add_self_emod, Int.emod_eq_of_lt] <;> omega
    rw [this]
    have h2 : ((s + 2 ^ 64).toNat : Int) = s + 2 ^ 64 := Int.toNat_of_nonneg (by omega)
    split
    · rename_i hlt; exfalso
      have : ((s + 2 ^ 64).toNat : Int) < 2 ^ 63 := by exact_mod_cast hlt
      omega
    · rw [h2]; omega

end CimbaModel.Props.C04
