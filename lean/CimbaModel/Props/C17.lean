/-
  C17 — data summaries equal the exact sample statistics; merging equals concatenation; weighted summaries.
  Property theorems only (+ non-vacuity examples).  Everything is about the definitions REGENERATED from the C sources
  on every run (`CimbaModel.Generated.Stats`, tools/gen_stats.py); `double` is an arbitrary linearly ordered field `K`
  (exact arithmetic: "up to rounding" is tested by the correspondence, not proved), `D` is `DBL_MAX`, every sample is a
  finite double (`-D ≤ x ≤ D`), weights are `≥ 0`.  For each C function `f`, `f_dom` says that the call is defined
  (asserts pass, no division by zero, no unsigned wrap): it is proved alongside, so Lean's `x / 0 = 0` hides nothing.

  `run D s0 xs`  = cmb_datasummary_initialize, then cmb_datasummary_add for each sample of `xs` in turn.
  `wrun D s0 l`  = cmb_wtdsummary_initialize, then cmb_wtdsummary_add for each (x, w) of `l` in turn.
-/
import CimbaModel.Stats.Weighted
import Mathlib.Algebra.Order.Field.Rat
import Mathlib.Analysis.Real.Sqrt

namespace CimbaModel.Props.C17
open CimbaModel.Stats CimbaModel.Generated.Stats

variable {K : Type} [Field K] [LinearOrder K] [IsStrictOrderedRing K]
set_option linter.unusedSectionVars false

/-- all samples are finite doubles -/
def Finite (D : K) (xs : List K) : Prop := ∀ x ∈ xs, -D ≤ x ∧ x ≤ D
/-- all samples finite, all weights non-negative -/
def WFinite (D : K) (l : List (K × K)) : Prop := ∀ p ∈ l, 0 ≤ p.2 ∧ -D ≤ p.1 ∧ p.1 ≤ D

/-! ## Unweighted summaries -/

/-- a freshly initialised summary represents the empty sequence -/
theorem init_repr (D : K) (s0 : DataSummary K) : Repr D (cmb_datasummary_initialize D s0) [] :=
  Stats.init_repr D s0

/-- one `add`: defined, represents the extended sequence, returns the new count -/
theorem add_repr {D : K} {s : DataSummary K} {xs : List K} {y : K} (h : Repr D s xs) (hy : -D ≤ y ∧ y ≤ D) :
    cmb_datasummary_add_dom s y ∧ Repr D (cmb_datasummary_add s y).2 (xs ++ [y])
      ∧ (cmb_datasummary_add s y).1 = (xs ++ [y]).length :=
  Stats.add_repr h hy

/-- hence, by induction, for EVERY finite sequence (length 0, 1, 2, … included): count, min, max, mean and the central
    sums Σ(x − mean)^k, k = 2, 3, 4 held by the summary are exactly those of the data -/
theorem summary_of_sequence (D : K) (s0 : DataSummary K) (xs : List K) (hf : Finite D xs) : Repr D (run D s0 xs) xs :=
  run_repr D s0 xs hf

theorem count_exact (D : K) (s0 : DataSummary K) (xs : List K) (hf : Finite D xs) :
    cmb_datasummary_count (run D s0 xs) = xs.length :=
  (count_reported (run_repr D s0 xs hf)).2

theorem min_max_exact (D : K) (s0 : DataSummary K) (xs : List K) (hf : Finite D xs) (hne : xs ≠ []) :
    (cmb_datasummary_min (run D s0 xs) ∈ xs ∧ ∀ x ∈ xs, cmb_datasummary_min (run D s0 xs) ≤ x) ∧
    (cmb_datasummary_max (run D s0 xs) ∈ xs ∧ ∀ x ∈ xs, x ≤ cmb_datasummary_max (run D s0 xs)) :=
  ⟨(min_reported (run_repr D s0 xs hf) hne).2, (max_reported (run_repr D s0 xs hf) hne).2⟩

theorem mean_exact (D : K) (s0 : DataSummary K) (xs : List K) (hf : Finite D xs) (hne : xs ≠ []) :
    cmb_datasummary_mean (run D s0 xs) = xs.sum / (xs.length : K) :=
  (mean_reported (run_repr D s0 xs hf) hne).2

/-- the header documents the *sample* variance: unbiased, divisor n − 1 (0 for fewer than two samples) -/
theorem variance_exact (D : K) (s0 : DataSummary K) (xs : List K) (hf : Finite D xs) :
    cmb_datasummary_variance_dom (run D s0 xs) ∧
    cmb_datasummary_variance (run D s0 xs) = if 2 ≤ xs.length then sampleVariance xs else 0 := by
  by_cases hn : 2 ≤ xs.length
  · simpa [hn] using variance_reported (run_repr D s0 xs hf) hn
  · simpa [hn] using variance_small (run_repr D s0 xs hf) (by omega)

/-- sample excess kurtosis G2 = (n−1)/((n−2)(n−3))·((n+1)(m₄/m₂² − 3) + 6); defined unless the data are constant
    (then the exact statistic is 0/0 and so is the C expression: `kurtosis_undefined_iff`) -/
theorem kurtosis_exact (D : K) (s0 : DataSummary K) (xs : List K) (hf : Finite D xs) (hn : 4 ≤ xs.length)
    (hv : S 2 (amean xs) xs ≠ 0) :
    cmb_datasummary_kurtosis_dom (run D s0 xs) ∧ cmb_datasummary_kurtosis (run D s0 xs) = sampleKurtosis xs :=
  kurtosis_reported (run_repr D s0 xs hf) hn hv

theorem kurtosis_undefined_iff_constant (D : K) (s0 : DataSummary K) (xs : List K) (hf : Finite D xs) (hn : 4 ≤ xs.length) :
    ¬ cmb_datasummary_kurtosis_dom (run D s0 xs) ↔ S 2 (amean xs) xs = 0 :=
  kurtosis_undefined_iff (run_repr D s0 xs hf) hn

/-- adjusted sample skewness G1 = √(n(n−1))/(n−2) · m₃/m₂^{3/2}: stated root-free (square and sign), for any `sqrt`, `pow`
    that are the non-negative square root and the 3/2-th power on non-negative arguments -/
theorem skewness_exact {sqrt : K → K} {pow : K → K → K} (hr : RootFns sqrt pow) (D : K) (s0 : DataSummary K)
    (xs : List K) (hf : Finite D xs) (hn : 3 ≤ xs.length) (hv : S 2 (amean xs) xs ≠ 0) :
    cmb_datasummary_skewness_dom sqrt pow (run D s0 xs)
      ∧ (cmb_datasummary_skewness sqrt pow (run D s0 xs)) ^ 2 = sampleSkewnessSq xs
      ∧ (0 < S 3 (amean xs) xs → 0 < cmb_datasummary_skewness sqrt pow (run D s0 xs))
      ∧ (S 3 (amean xs) xs < 0 → cmb_datasummary_skewness sqrt pow (run D s0 xs) < 0)
      ∧ (S 3 (amean xs) xs = 0 → cmb_datasummary_skewness sqrt pow (run D s0 xs) = 0) :=
  skewness_reported hr (run_repr D s0 xs hf) hn hv

/-- Merging two summaries gives a summary of the concatenated data — whatever the operands represent, EMPTY ones
    included (one or both), and whatever the target held before. -/
theorem merge_repr {D : K} {t a b : DataSummary K} {xs ys : List K} (ha : Repr D a xs) (hb : Repr D b ys) :
    cmb_datasummary_merge_dom D t a b ∧ Repr D (cmb_datasummary_merge D t a b).2 (xs ++ ys)
      ∧ (cmb_datasummary_merge D t a b).1 = (xs ++ ys).length :=
  Stats.merge_repr ha hb

/-- … in exact arithmetic it IS the summary of the concatenation, field for field, for every split of every sequence -/
theorem merge_is_concatenation (D : K) (s0 s1 s2 t : DataSummary K) (xs ys : List K) (hx : Finite D xs) (hy : Finite D ys) :
    (cmb_datasummary_merge D t (run D s1 xs) (run D s2 ys)).2 = run D s0 (xs ++ ys) := by
  have hcat : Finite D (xs ++ ys) := by
    intro x hx'; rcases List.mem_append.mp hx' with h | h
    · exact hx x h
    · exact hy x h
  exact (Stats.merge_repr (t := t) (run_repr D s1 xs hx) (run_repr D s2 ys hy)).2.1.unique (run_repr D s0 _ hcat)

/-- either order of the operands -/
theorem merge_comm {D : K} {t t' a b : DataSummary K} {xs ys : List K} (ha : Repr D a xs) (hb : Repr D b ys) :
    (cmb_datasummary_merge D t a b).2 = (cmb_datasummary_merge D t' b a).2 :=
  Stats.merge_comm ha hb

/-- into either operand (or a third object): the previous content of the target is irrelevant; that the target may be the
    same object as a source is covered by the translator's aliasing check (no read through a source after the write) -/
theorem merge_into_either_operand {D : K} {a b : DataSummary K} {xs ys : List K} (ha : Repr D a xs) (hb : Repr D b ys)
    (t : DataSummary K) :
    (cmb_datasummary_merge D a a b).2 = (cmb_datasummary_merge D t a b).2 ∧
    (cmb_datasummary_merge D b a b).2 = (cmb_datasummary_merge D t a b).2 :=
  ⟨(Stats.merge_repr (t := a) ha hb).2.1.unique (Stats.merge_repr (t := t) ha hb).2.1,
   (Stats.merge_repr (t := b) ha hb).2.1.unique (Stats.merge_repr (t := t) ha hb).2.1⟩

/-- merging two empty summaries is defined and leaves an empty summary, to which samples can then be added -/
theorem merge_empty_empty (D : K) (s1 s2 t : DataSummary K) (xs : List K) (hf : Finite D xs) :
    cmb_datasummary_merge_dom D t (cmb_datasummary_initialize D s1) (cmb_datasummary_initialize D s2) ∧
    Repr D (xs.foldl (fun s y => (cmb_datasummary_add s y).2)
      (cmb_datasummary_merge D t (cmb_datasummary_initialize D s1) (cmb_datasummary_initialize D s2)).2) xs := by
  obtain ⟨hd, hr, _⟩ := Stats.merge_repr (t := t) (Stats.init_repr D s1) (Stats.init_repr D s2)
  exact ⟨hd, by simpa using foldl_repr xs hf _ _ hr⟩

/-! ## Weighted summaries -/

theorem wtd_summary_of_sequence (D : K) (s0 : WtdSummary K) (l : List (K × K)) (hf : WFinite D l) :
    WRepr D (wrun D s0 l) (effective l) :=
  wrun_repr D s0 l hf

/-- the reported mean is the exact weighted mean: mean · Σw = Σ w·x (sums over ALL samples given, zero weights included) -/
theorem wtd_mean_exact (D : K) (s0 : WtdSummary K) (l : List (K × K)) (hf : WFinite D l) :
    cmb_wtdsummary_mean (wrun D s0 l) * wtot l = wxsum l := by
  have h := (wrun_repr D s0 l hf).mean
  rw [wtot_effective, wxsum_effective] at h
  simpa [cmb_wtdsummary_mean, cmb_datasummary_mean] using h

/-- a zero-weight sample is ignored: the summary is unchanged (not even counted), wherever it occurs in the sequence -/
theorem wtd_zero_weight_ignored (D : K) (s0 : WtdSummary K) (l₁ l₂ : List (K × K)) (x : K) :
    wrun D s0 (l₁ ++ (x, 0) :: l₂) = wrun D s0 (l₁ ++ l₂) := by
  simp only [wrun, List.foldl_append, List.foldl_cons]
  rw [(wadd_zero_weight _ x).1]

theorem wtd_zero_weight_add (s : WtdSummary K) (x : K) :
    (cmb_wtdsummary_add s x 0).2 = s ∧ (cmb_wtdsummary_add s x 0).1 = s.ds.count :=
  wadd_zero_weight s x

/-- with all weights equal to one the weighted summary coincides with the unweighted one: same fields, same statistics -/
theorem wtd_unit_weights_eq_unweighted {sqrt : K → K} {pow : K → K → K} (D : K) (w0 : WtdSummary K) (s0 : DataSummary K)
    (xs : List K) (hf : Finite D xs) :
    (wrun D w0 (unitW xs)).ds = run D s0 xs ∧
    cmb_wtdsummary_count (wrun D w0 (unitW xs)) = cmb_datasummary_count (run D s0 xs) ∧
    cmb_wtdsummary_min (wrun D w0 (unitW xs)) = cmb_datasummary_min (run D s0 xs) ∧
    cmb_wtdsummary_max (wrun D w0 (unitW xs)) = cmb_datasummary_max (run D s0 xs) ∧
    cmb_wtdsummary_mean (wrun D w0 (unitW xs)) = cmb_datasummary_mean (run D s0 xs) ∧
    cmb_wtdsummary_variance (wrun D w0 (unitW xs)) = cmb_datasummary_variance (run D s0 xs) ∧
    cmb_wtdsummary_skewness sqrt pow (wrun D w0 (unitW xs)) = cmb_datasummary_skewness sqrt pow (run D s0 xs) ∧
    cmb_wtdsummary_kurtosis (wrun D w0 (unitW xs)) = cmb_datasummary_kurtosis (run D s0 xs) := by
  have hwf : WFinite D (unitW xs) := by
    intro p hp
    simp only [unitW, List.mem_map] at hp
    obtain ⟨x, hx, rfl⟩ := hp
    exact ⟨zero_le_one, hf x hx⟩
  have hw := wrun_repr D w0 (unitW xs) hwf
  rw [effective_unitW] at hw
  obtain ⟨hr, hws⟩ := hw.toRepr
  have hds : (wrun D w0 (unitW xs)).ds = run D s0 xs := hr.unique (run_repr D s0 xs hf)
  have hnorm : cmi_wtdsummary_normalized (wrun D w0 (unitW xs)) = run D s0 xs := by
    rw [normalized_unit (by rw [hws, hr.count]), hds]
  refine ⟨hds, ?_, ?_, ?_, ?_, ?_, ?_, ?_⟩
  · simp only [cmb_wtdsummary_count, hds]
  · simp only [cmb_wtdsummary_min, hds]
  · simp only [cmb_wtdsummary_max, hds]
  · simp only [cmb_wtdsummary_mean, hds]
  · simp only [cmb_wtdsummary_variance, hnorm]
  · simp only [cmb_wtdsummary_skewness, hnorm]
  · simp only [cmb_wtdsummary_kurtosis, hnorm]

/-- multiplying every weight by the same positive constant changes none of the statistics -/
theorem wtd_scale_invariant {sqrt : K → K} {pow : K → K → K} (D : K) (s0 s0' : WtdSummary K) (l : List (K × K))
    (hf : WFinite D l) (c : K) (hc : 0 < c) :
    cmb_wtdsummary_count (wrun D s0' (scaleW c l)) = cmb_wtdsummary_count (wrun D s0 l) ∧
    cmb_wtdsummary_min (wrun D s0' (scaleW c l)) = cmb_wtdsummary_min (wrun D s0 l) ∧
    cmb_wtdsummary_max (wrun D s0' (scaleW c l)) = cmb_wtdsummary_max (wrun D s0 l) ∧
    cmb_wtdsummary_mean (wrun D s0' (scaleW c l)) = cmb_wtdsummary_mean (wrun D s0 l) ∧
    cmb_wtdsummary_variance (wrun D s0' (scaleW c l)) = cmb_wtdsummary_variance (wrun D s0 l) ∧
    cmb_wtdsummary_stddev sqrt (wrun D s0' (scaleW c l)) = cmb_wtdsummary_stddev sqrt (wrun D s0 l) ∧
    cmb_wtdsummary_skewness sqrt pow (wrun D s0' (scaleW c l)) = cmb_wtdsummary_skewness sqrt pow (wrun D s0 l) ∧
    cmb_wtdsummary_kurtosis (wrun D s0' (scaleW c l)) = cmb_wtdsummary_kurtosis (wrun D s0 l) := by
  have hf' : WFinite D (scaleW c l) := by
    intro p hp
    simp only [scaleW, List.mem_map] at hp
    obtain ⟨q, hq, rfl⟩ := hp
    exact ⟨mul_nonneg (le_of_lt hc) (hf q hq).1, (hf q hq).2⟩
  have h := wrun_repr D s0 l hf
  have h' := wrun_repr D s0' (scaleW c l) hf'
  rw [effective_scaleW (ne_of_gt hc)] at h'
  have hs := h.scale h' hc
  have hnorm := normalized_scale h h' hc
  refine ⟨?_, ?_, ?_, ?_, ?_, ?_, ?_, ?_⟩
  · rw [hs]; simp [cmb_wtdsummary_count, cmb_datasummary_count]
  · rw [hs]; simp [cmb_wtdsummary_min, cmb_datasummary_min]
  · rw [hs]; simp [cmb_wtdsummary_max, cmb_datasummary_max]
  · rw [hs]; simp [cmb_wtdsummary_mean, cmb_datasummary_mean]
  · simp only [cmb_wtdsummary_variance, hnorm]
  · simp only [cmb_wtdsummary_stddev, hnorm]
  · simp only [cmb_wtdsummary_skewness, hnorm]
  · simp only [cmb_wtdsummary_kurtosis, hnorm]

/-- what the weighted accessors report: the reliability-weight sample statistics, with n = number of samples of
    non-zero weight (for equal weights: the unweighted sample statistics) -/
theorem wtd_variance_exact (D : K) (s0 : WtdSummary K) (l : List (K × K)) (hf : WFinite D l) (hn : 2 ≤ (effective l).length) :
    cmb_wtdsummary_variance_dom (wrun D s0 l) ∧ cmb_wtdsummary_variance (wrun D s0 l) = wsampleVariance (effective l) :=
  wvariance_reported (wrun_repr D s0 l hf) hn

theorem wtd_kurtosis_exact (D : K) (s0 : WtdSummary K) (l : List (K × K)) (hf : WFinite D l) (hn : 4 ≤ (effective l).length)
    (hv : WS 2 (wmean (effective l)) (effective l) ≠ 0) :
    cmb_wtdsummary_kurtosis_dom (wrun D s0 l) ∧ cmb_wtdsummary_kurtosis (wrun D s0 l) = wsampleKurtosis (effective l) :=
  wkurtosis_reported (wrun_repr D s0 l hf) hn hv

theorem wtd_skewness_exact {sqrt : K → K} {pow : K → K → K} (hr : RootFns sqrt pow) (D : K) (s0 : WtdSummary K)
    (l : List (K × K)) (hf : WFinite D l) (hn : 3 ≤ (effective l).length)
    (hv : WS 2 (wmean (effective l)) (effective l) ≠ 0) :
    cmb_wtdsummary_skewness_dom sqrt pow (wrun D s0 l)
      ∧ (cmb_wtdsummary_skewness sqrt pow (wrun D s0 l)) ^ 2 = wsampleSkewnessSq (effective l)
      ∧ (0 < WS 3 (wmean (effective l)) (effective l) → 0 < cmb_wtdsummary_skewness sqrt pow (wrun D s0 l))
      ∧ (WS 3 (wmean (effective l)) (effective l) < 0 → cmb_wtdsummary_skewness sqrt pow (wrun D s0 l) < 0) :=
  wskewness_reported hr (wrun_repr D s0 l hf) hn hv

/-- merging weighted summaries = summarising the concatenated weighted data (empties included, either order, any target) -/
theorem wtd_merge_repr {D : K} {t a b : WtdSummary K} {l₁ l₂ : List (K × K)} (ha : WRepr D a l₁) (hb : WRepr D b l₂) :
    cmb_wtdsummary_merge_dom D t a b ∧ WRepr D (cmb_wtdsummary_merge D t a b).2 (l₁ ++ l₂)
      ∧ (cmb_wtdsummary_merge D t a b).1 = (l₁ ++ l₂).length :=
  wmerge_repr ha hb

theorem wtd_merge_is_concatenation (D : K) (s0 s1 s2 t : WtdSummary K) (l₁ l₂ : List (K × K)) (h1 : WFinite D l₁)
    (h2 : WFinite D l₂) :
    (cmb_wtdsummary_merge D t (wrun D s1 l₁) (wrun D s2 l₂)).2 = wrun D s0 (l₁ ++ l₂) := by
  have hcat : WFinite D (l₁ ++ l₂) := by
    intro p hp; rcases List.mem_append.mp hp with h | h
    · exact h1 p h
    · exact h2 p h
  have := wrun_repr D s0 _ hcat
  rw [effective_append] at this
  exact (wmerge_repr (t := t) (wrun_repr D s1 l₁ h1) (wrun_repr D s2 l₂ h2)).2.1.unique this

theorem wtd_merge_comm {D : K} {t t' a b : WtdSummary K} {l₁ l₂ : List (K × K)} (ha : WRepr D a l₁) (hb : WRepr D b l₂) :
    (cmb_wtdsummary_merge D t a b).2 = (cmb_wtdsummary_merge D t' b a).2 :=
  wmerge_comm ha hb

/-! ## Non-vacuity: the hypotheses are satisfiable and the statements say something on concrete data (K = ℚ) -/

section examples

private def z : DataSummary ℚ := { cookie := 0, count := 0, min := 0, max := 0, m1 := 0, m2 := 0, m3 := 0, m4 := 0 }
private def zw : WtdSummary ℚ := { ds := z, wsum := 0 }

example : Finite (1000 : ℚ) [3, 5, 10, 4] := by intro x hx; simp at hx; rcases hx with h | h | h | h <;> subst h <;> norm_num
example : WFinite (1000 : ℚ) [(3, 2), (5, 0), (10, 1)] := by
  intro p hp; simp at hp; rcases hp with h | h | h <;> subst h <;> norm_num

/-- 3, 5, 10, 4: mean 11/2, Σ(x − mean)² = 29 -/
example : (run (1000 : ℚ) z [3, 5, 10, 4]).m1 = 11 / 2 ∧ (run (1000 : ℚ) z [3, 5, 10, 4]).m2 = 29
    ∧ cmb_datasummary_variance (run (1000 : ℚ) z [3, 5, 10, 4]) = 29 / 3 := by
  norm_num [run, cmb_datasummary_add, cmb_datasummary_initialize, cmb_datasummary_variance, z]

/-- merging the summaries of [3, 5] and [10, 4] gives the same mean and second sum -/
example : (cmb_datasummary_merge 1000 z (run (1000 : ℚ) z [3, 5]) (run 1000 z [10, 4])).2.m1 = 11 / 2
    ∧ (cmb_datasummary_merge 1000 z (run (1000 : ℚ) z [3, 5]) (run 1000 z [10, 4])).2.m2 = 29 := by
  norm_num [run, cmb_datasummary_add, cmb_datasummary_merge, cmb_datasummary_initialize, z]

/-- merging two empty summaries and then adding 3 and 5: mean 4 (the scenario of corpus/stats/merge-empty-empty.txt) -/
example : cmb_datasummary_merge_dom (1000 : ℚ) z (cmb_datasummary_initialize 1000 z) (cmb_datasummary_initialize 1000 z) ∧
    ([3, 5].foldl (fun s y => (cmb_datasummary_add s y).2)
      (cmb_datasummary_merge (1000 : ℚ) z (cmb_datasummary_initialize 1000 z) (cmb_datasummary_initialize 1000 z)).2).m1 = 4 := by
  constructor
  · norm_num [cmb_datasummary_merge_dom, cmb_datasummary_initialize_dom, cmb_datasummary_initialize, z]
  · norm_num [cmb_datasummary_add, cmb_datasummary_merge, cmb_datasummary_initialize, z]

/-- weights 2, 0, 1 on 3, 5, 10: weighted mean 16/3; the zero-weight 5 is not counted -/
example : (wrun (1000 : ℚ) zw [(3, 2), (5, 0), (10, 1)]).ds.m1 = 16 / 3 ∧ (wrun (1000 : ℚ) zw [(3, 2), (5, 0), (10, 1)]).ds.count = 2 := by
  norm_num [wrun, cmb_wtdsummary_add, cmb_wtdsummary_initialize, cmb_datasummary_initialize, zw, z]

/-- weights ×10 leave the variance unchanged (the scenario of corpus/stats/weights-times-ten.txt) -/
example : cmb_wtdsummary_variance (wrun (1000 : ℚ) zw [(1, 10), (2, 20), (4, 10), (7, 30)])
    = cmb_wtdsummary_variance (wrun (1000 : ℚ) zw [(1, 1), (2, 2), (4, 1), (7, 3)]) := by
  norm_num [wrun, cmb_wtdsummary_add, cmb_wtdsummary_initialize, cmb_datasummary_initialize, cmb_wtdsummary_variance,
    cmi_wtdsummary_normalized, cmb_datasummary_variance, zw, z]

/-- the assumptions on `sqrt` and `pow(·, 3/2)` are satisfiable: the real square root and x ↦ (√x)³ -/
example : RootFns (K := ℝ) Real.sqrt (fun x _ => Real.sqrt x ^ 3) where
  sqrt_sq := fun x hx => Real.mul_self_sqrt hx
  sqrt_nonneg := fun x _ => Real.sqrt_nonneg x
  pow_sq := fun x hx => by
    have := Real.mul_self_sqrt hx
    calc Real.sqrt x ^ 3 * Real.sqrt x ^ 3 = (Real.sqrt x * Real.sqrt x) ^ 3 := by ring
      _ = x ^ 3 := by rw [this]
  pow_nonneg := fun x _ => pow_nonneg (Real.sqrt_nonneg x) 3

end examples

end CimbaModel.Props.C17
