/-
  C11 — buffer level is conserved and partial transfers are reported exactly
  Property theorems only (the process-layer model is CimbaModel/Sim; helper lemmas in CimbaModel/Sim/S2*).
-/
import CimbaModel.Sim.Basic
import CimbaModel.HashHeap.Orders
import CimbaModel.Sim.S2BufCalls

namespace CimbaModel.Props.C11
open CimbaModel CimbaModel.Sim CimbaModel.Event CimbaModel.Generated CimbaModel.HashHeap.SpecOrders
open CimbaModel.HashHeap (HTag Item Order HH)

/-- a getter's / putter's demand on a buffer is "has content" / "has space" -/
theorem buffer_demands (w : World) (b : Nat) (x : Buf) (hx : w.bufs[b]? = some x) :
    (evalDemand w (.bufContent b) = true ↔ 0 < x.level) ∧ (evalDemand w (.bufSpace b) = true ↔ x.level < x.cap) := by
  simp [evalDemand, hx]

/-! ### the invariant -/

/-- what `BufInv` says: **the level equals the total amount put so far minus the total amount got so far** (stated
    without subtraction) **and stays between zero and the capacity** -/
theorem buffer_invariant_unfolded {w : World} (hi : BufInv w) {b : Nat} {x : Buf} (hx : w.bufs[b]? = some x) :
    x.level + x.getTotal = x.putTotal ∧ x.level = x.putTotal - x.getTotal ∧ x.getTotal ≤ x.putTotal ∧ x.level ≤ x.cap := by
  have ok := hi.get hx
  have := ok.conserve
  exact ⟨ok.conserve, by omega, by omega, ok.inCap⟩

/-- one dispatched event — everything the resumed process does until it yields — keeps the invariant -/
theorem buffer_invariant_dispatch {w w' : World} (hi : BufInv w) (hd : dispatch w = some w') : BufInv w' :=
  BufInv.preserved.dispatch hi hd

/-- hence it holds in every reachable state, for all programs, schedules and same-instant coincidences -/
theorem buffer_invariant_reachable {w : World} (hi : BufInv w) (fuel : Nat) : BufInv (runAll fuel w) :=
  BufInv.preserved.runAll fuel w hi

/-- it holds initially: buffers created empty, or pre-filled up to their capacity with the totals set accordingly -/
theorem buffer_invariant_initial (w : World)
    (h : ∀ (b : Nat) (x : Buf), w.bufs[b]? = some x → x.level ≤ x.cap ∧ x.putTotal = x.level ∧ x.getTotal = 0) : BufInv w := by
  intro b x hx
  obtain ⟨h1, h2, h3⟩ := h b x hx
  exact ⟨by omega, h1⟩

/-! ### one pass of the get / put loop -/

/-- one pass of `cmb_buffer_get`: either the remaining claim is there — success, the report is `got + rem`, exactly `rem`
    left the buffer — or the pass takes all there is and suspends with the claim reduced and `got` increased by exactly
    the amount taken -/
theorem get_pass {w : World} (p : Pid) {b : Nat} {x : Buf} (hx : w.bufs[b]? = some x) (rem got : Nat) :
    (x.level ≥ rem ∧ (bufGetLoop w p b rem got).2 = .ret sigSuccess s!"amt={got + rem}" ∧
      bufView (bufGetLoop w p b rem got).1 b = some ⟨x.cap, x.level - rem, x.putTotal, x.getTotal + rem⟩) ∨
    (x.level < rem ∧ ∃ w1, bufGetLoop w p b rem got = block w1 p (.bufGet b (rem - x.level) (got + x.level)) ∧
      bufView w1 b = some ⟨x.cap, 0, x.putTotal, x.getTotal + x.level⟩) :=
  bufGetLoop_pass p hx rem got

theorem put_pass {w : World} (p : Pid) {b : Nat} {x : Buf} (hx : w.bufs[b]? = some x) (rem left : Nat) :
    (x.cap - x.level ≥ rem ∧ (bufPutLoop w p b rem left).2 = .ret sigSuccess s!"amt={left - rem}" ∧
      bufView (bufPutLoop w p b rem left).1 b = some ⟨x.cap, x.level + rem, x.putTotal + rem, x.getTotal⟩) ∨
    (x.cap - x.level < rem ∧ ∃ w1, bufPutLoop w p b rem left =
        block w1 p (.bufPut b (rem - (x.cap - x.level)) (left - (x.cap - x.level))) ∧
      bufView w1 b = some ⟨x.cap, x.level + (x.cap - x.level), x.putTotal + (x.cap - x.level), x.getTotal⟩) :=
  bufPutLoop_pass p hx rem left

/-- the command starts the first pass with the full claim, nothing received yet -/
theorem get_starts (w : World) (p : Pid) (b n : Nat) (hb : b < w.bufs.size) :
    execCmd w p (.bufGet b n) = bufGetLoop w p b n 0 := execCmd_bufGet w p b n hb

theorem put_starts (w : World) (p : Pid) (b n : Nat) (hb : b < w.bufs.size) (hn : n ≠ 0) :
    execCmd w p (.bufPut b n) = bufPutLoop w p b n n := execCmd_bufPut w p b n hb hn

/-- a suspended get continues with another pass on a grant, and returns at once — reporting `got`, the part received so
    far, the buffer untouched — on any other signal -/
theorem get_resumes (w : World) (p : Pid) (b rem got : Nat) (sig : Int) (x : Buf) (hx : w.bufs[b]? = some x) :
    resumeFrame w p (.bufGet b rem got) sig =
      (if sig = sigSuccess then bufGetLoop (guardWaitLeave w x.front p sig) p b rem got
       else (guardWaitLeave w x.front p sig, .ret sig s!"amt={got}")) ∧
    bufView (guardWaitLeave w x.front p sig) b = bufView w b :=
  ⟨resumeFrame_bufGet w p b rem got sig x hx, bufView_guardWaitLeave w x.front p sig b⟩

theorem put_resumes (w : World) (p : Pid) (b rem left : Nat) (sig : Int) (x : Buf) (hx : w.bufs[b]? = some x) :
    resumeFrame w p (.bufPut b rem left) sig =
      (if sig = sigSuccess then bufPutLoop (guardWaitLeave w x.rear p sig) p b rem left
       else (guardWaitLeave w x.rear p sig, .ret sig s!"amt={left}")) ∧
    bufView (guardWaitLeave w x.rear p sig) b = bufView w b :=
  ⟨resumeFrame_bufPut w p b rem left sig x hx, bufView_guardWaitLeave w x.rear p sig b⟩

/-! ### a whole call (`GetRun` / `PutRun`: the call as the sequence of its passes, anything happening in between) -/

/-- **get_ok**: a `cmb_buffer_get(n)` that returns success reports `amt = n`, and its passes took exactly `n` out of the
    buffer (measured on the ghost total `getTotal`) -/
theorem get_ok {p : Pid} {b n m : Nat} {extra : String} (h : GetRun p b n 0 m sigSuccess extra) :
    extra = s!"amt={n}" ∧ m = n := by
  obtain ⟨e1, e2⟩ := h.exact
  have := e2 rfl
  subst this
  exact ⟨by simpa using e1, rfl⟩

/-- **get_intr**: a get that returns with any other signal reports exactly the part its passes transferred before the
    interruption -/
theorem get_intr {p : Pid} {b n m : Nat} {sig : Int} {extra : String} (h : GetRun p b n 0 m sig extra) :
    extra = s!"amt={m}" := by
  simpa using h.exact.1

/-- **put_ok**: a `cmb_buffer_put(n)` that returns success reports 0 left over, and its passes put exactly `n` in -/
theorem put_ok {p : Pid} {b n m : Nat} {extra : String} (h : PutRun p b n n m sigSuccess extra) :
    extra = s!"amt={0}" ∧ m = n := by
  obtain ⟨e1, _, e3⟩ := h.exact (Nat.le_refl _)
  have := e3 rfl
  subst this
  exact ⟨by simpa using e1, rfl⟩

/-- **put_intr**: a put that returns with any other signal reports as left over exactly `n` minus the part transferred;
    that part never exceeds `n` -/
theorem put_intr {p : Pid} {b n m : Nat} {sig : Int} {extra : String} (h : PutRun p b n n m sig extra) :
    extra = s!"amt={n - m}" ∧ m ≤ n :=
  ⟨(h.exact (Nat.le_refl _)).1, (h.exact (Nat.le_refl _)).2.1⟩

/-- the part transferred by a pass is reflected in the level: after a pass of get on a buffer satisfying the invariant,
    `level' + (getTotal' − getTotal) = level` -/
theorem get_pass_level {w : World} (p : Pid) {b : Nat} {x : Buf} (hx : w.bufs[b]? = some x) (rem got : Nat) :
    levelOf (bufGetLoop w p b rem got).1 b + (getTotalOf (bufGetLoop w p b rem got).1 b - getTotalOf w b) = x.level := by
  have hv0 := bufView_of_get hx
  rcases bufGetLoop_pass p hx rem got with ⟨hge, _, hview⟩ | ⟨hlt, w1, hblk, hview⟩
  · rw [getTotalOf_of_view hview, getTotalOf_of_view hv0]
    unfold levelOf; rw [hview]
    simp [Buf.view]; omega
  · have hv1 : bufView (bufGetLoop w p b rem got).1 b = some ⟨x.cap, 0, x.putTotal, x.getTotal + x.level⟩ := by
      rw [hblk, bufView_block]; exact hview
    rw [getTotalOf_of_view hv1, getTotalOf_of_view hv0]
    unfold levelOf; rw [hv1]
    simp [Buf.view]

/-! ### the hypotheses are satisfiable -/

example : BufInv { bufs := #[{ cap := 7, front := 0, rear := 1 }] } := by
  apply buffer_invariant_initial
  intro b x hx
  rcases b with _ | b
  · simp at hx; subst hx; exact ⟨by decide, rfl, rfl⟩
  · simp at hx

/-- a call interrupted before anything was transferred -/
example : GetRun 0 0 5 0 0 sigInterrupted s!"amt={0}" := GetRun.intr (by decide)

/-- a one-pass successful get of 3 from a buffer holding 4 -/
example : ∃ m extra, GetRun 0 0 3 0 m sigSuccess extra ∧ m = 3 := by
  let w : World := { bufs := #[{ cap := 7, level := 4, putTotal := 4, front := 0, rear := 1 }] }
  have hx : w.bufs[0]? = some { cap := 7, level := 4, putTotal := 4, front := 0, rear := 1 } := rfl
  rcases bufGetLoop_pass 0 hx 3 0 with ⟨_, hret, _⟩ | ⟨hlt, _⟩
  · have h := GetRun.last (p := 0) hx hret
    exact ⟨_, _, h, (get_ok h).2⟩
  · exact absurd hlt (by decide)

end CimbaModel.Props.C11
