/-
  C11 — buffer level is conserved and partial transfers are reported exactly
  Property theorems only (the process-layer model is CimbaModel/Sim; helper lemmas in CimbaModel/Sim/*).
-/
import CimbaModel.Sim.Basic
import CimbaModel.HashHeap.Orders

namespace CimbaModel.Props.C11
open CimbaModel CimbaModel.Sim CimbaModel.Event CimbaModel.Generated CimbaModel.HashHeap.SpecOrders
open CimbaModel.HashHeap (HTag Item Order HH)

/-- a getter's / putter's demand on a buffer is "has content" / "has space" -/
theorem buffer_demands (w : World) (b : Nat) (x : Buf) (hx : w.bufs[b]? = some x) :
    (evalDemand w (.bufContent b) = true ↔ 0 < x.level) ∧ (evalDemand w (.bufSpace b) = true ↔ x.level < x.cap) := by
  simp [evalDemand, hx]

end CimbaModel.Props.C11
