import CimbaModel.Mempool.Model
namespace CimbaModel.Props.C20
theorem stub : True := trivial
end CimbaModel.Props.C20
