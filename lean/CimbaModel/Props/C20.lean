/-
  C20 — Every object obtained from a memory pool is 8-byte aligned, at least as large as the pool's object size,
  disjoint from every other object currently allocated from that pool, and keeps its contents until it is returned;
  returned objects may be handed out again but never while still allocated.  For any number of simultaneously live
  objects (any number of pool expansions), for dynamically created pools and statically initialised ones alike.

  Property theorems only; the model is CimbaModel/Mempool/Model.lean (tied to src/cmi_mempool.c / .h by the
  exact-state correspondence of tools/props/C20.py), the lemmas are in CimbaModel/Mempool/{Mem,Inv,Expand,Steps}.lean.

  Quantification: every `cfg` with a page size that passes the asserts of `cmi_aligned_alloc` and every
  `CHUNK_LIST_SIZE > 0`; every object size that is a positive multiple of 8; every requested number of objects per
  chunk > 0; every list of client operations (`Op.alloc`, `Op.free i`, `Op.write i j v`; `i` names the i-th object the
  client currently holds, so every list is a valid client program).  Nothing bounds the number of expansions.

  Byte addresses: `Layout` states what is assumed of `aligned_alloc`: chunk `c` starts at `base c`, a multiple of the
  page size, and distinct chunks (`incr_sz` bytes each) do not overlap.  An address `(c, w)` of the model is the byte
  address `base c + 8 * w`.
-/
import CimbaModel.Mempool.Spec
import CimbaModel.Mempool.GenTie

namespace CimbaModel.Props.C20
open CimbaModel.Mempool

/-! ### no client program ever makes the pool fault (no access outside the chunk list or outside a chunk, no
    failed assert), and the invariant `Good` holds after every operation -/

theorem dynamic_pool_never_faults {cfg : Cfg} (hcfg : CfgOK cfg) {sz num : Nat} (h8 : sz % 8 = 0) (hsz : 0 < sz)
    (hnum : 0 < num) (ops : List Op) :
    ∃ s0 s, newDynamic cfg sz num = .ok s0 ∧ run cfg s0 ops = .ok s ∧ Good cfg s := by
  obtain ⟨s0, h0, g0⟩ := newDynamic_good hcfg h8 hsz hnum
  obtain ⟨s, h1, g1⟩ := run_good hcfg ops s0 g0
  exact ⟨s0, s, h0, h1, g1⟩

theorem static_pool_never_faults {cfg : Cfg} (hcfg : CfgOK cfg) {sz num : Nat} (h8 : sz % 8 = 0) (hsz : 0 < sz)
    (hnum : 0 < num) (ops : List Op) :
    ∃ s, run cfg (newStatic sz num) ops = .ok s ∧ Good cfg s :=
  run_good hcfg ops _ (newStatic_good h8 hsz hnum)

/-- `cmi_mempool_expand` (repaired) never writes outside the chunk list, whatever the number of chunks -/
theorem expand_ok {cfg : Cfg} (hcfg : CfgOK cfg) {s : MP} {live : List Addr} (h : Inv cfg s [] live) :
    ∃ s', expand cfg s = .ok s' ∧ Inv cfg s' (objsFrom s.mem.size 0 (s.objSz / 8) s.incrNum) live := by
  obtain ⟨s', h1, h2, _⟩ := expand_inv hcfg h
  exact ⟨s', h1, h2⟩

/-! ### the model's size arithmetic is the code's: `Generated.Mempool.initialize_sizes` / `initialize_asserts` /
    `chunk_list_size` are re-extracted from the C AST of `cmi_mempool_initialize` on every run (tools/gen_pool.py) -/

/-- the model's initialisation succeeds exactly when the release asserts of the C function hold (and `obj_sz ≠ 0`:
    the C code divides by `obj_sz`) -/
theorem initialize_asserts_are_the_codes (cfg : Cfg) (s : MP) (sz num : Nat) :
    (∃ s', initPool cfg s sz num = .ok s') ↔
      (CimbaModel.Generated.Mempool.initialize_asserts sz num = true ∧ sz ≠ 0) :=
  initPool_ok_iff cfg s sz num

/-- object size, chunk size in bytes (page rounding), objects per chunk, initial chunk-list length and count of the
    model are the values the C code computes in 64-bit arithmetic, provided `obj_num * obj_sz + page < 2^64` -/
theorem initialize_sizes_are_the_codes (page : Nat) (s s' : MP) (sz num : Nat) (hp : 0 < page)
    (hov : num * sz + page < 2 ^ 64)
    (h : initPool { page := page, cls := CimbaModel.Generated.Mempool.chunk_list_size } s sz num = .ok s') :
    s'.objSz = (CimbaModel.Generated.Mempool.initialize_sizes page s sz num).objSz ∧
    s'.incrSz = (CimbaModel.Generated.Mempool.initialize_sizes page s sz num).incrSz ∧
    s'.incrNum = (CimbaModel.Generated.Mempool.initialize_sizes page s sz num).incrNum ∧
    s'.listLen = (CimbaModel.Generated.Mempool.initialize_sizes page s sz num).listLen ∧
    s'.listCnt = (CimbaModel.Generated.Mempool.initialize_sizes page s sz num).listCnt :=
  initPool_sizes_eq page s s' sz num hp hov h

/-- the loop that threads a fresh chunk in `cmi_mempool_expand` (trip count and stride re-extracted from the C AST)
    is the model's: `incr_num - 1` link steps of `obj_sz / 8` words, then the NULL terminator — for every chunk
    population `incr_num ≥ 1`, including chunks of exactly one object -/
theorem expand_loop_is_the_codes (s : MP) (hnum : 0 < s.incrNum) (hn : s.incrNum < 2 ^ 32)
    (hs : s.objSz / 8 < 2 ^ 32) :
    CimbaModel.Generated.Mempool.expand_links s = s.incrNum - 1 ∧
    CimbaModel.Generated.Mempool.expand_stride s = s.objSz / 8 :=
  expand_loop_eq s hnum hn hs

/-- chunks that hold exactly ONE object (object larger than half the chunk): expanding puts exactly that one object
    on the free list, its link is NULL, nothing else in the new chunk is handed out later -/
theorem expand_single_object_chunk {cfg : Cfg} (hcfg : CfgOK cfg) {s : MP} {live : List Addr} (h : Inv cfg s [] live)
    (h1 : s.incrNum = 1) :
    ∃ s', expand cfg s = .ok s' ∧ Inv cfg s' [(s.mem.size, 0)] live ∧ s'.nextObj = some (s.mem.size, 0) ∧
      s'.mem.get s.mem.size 0 = .link none := by
  obtain ⟨s', h2, h3, _⟩ := expand_inv hcfg h
  rw [h1] at h3
  simp only [objsFrom] at h3
  obtain ⟨hd, nx, hl, hr⟩ := h3.chain
  have : nx = none := hr
  subst this
  exact ⟨s', h2, h3, hd, hl⟩

/-! ### live objects: aligned, inside their chunk with `obj_sz` bytes, pairwise disjoint -/

theorem alloc_distinct_aligned {cfg : Cfg} (hcfg : CfgOK cfg) {s : Sys} (h : Good cfg s) {base : Nat → Nat}
    (hl : Layout cfg s.mp base) {a : Addr} (ha : a ∈ s.live) :
    byteAddr base a % 8 = 0 ∧
    8 * a.2 + s.mp.objSz ≤ s.mp.incrSz ∧
    ∀ b, b ∈ s.live → b ≠ a →
      byteAddr base a + s.mp.objSz ≤ byteAddr base b ∨ byteAddr base b + s.mp.objSz ≤ byteAddr base a := by
  rcases h.1 with ⟨fl, hi⟩ | ⟨_, hnil⟩
  · have hu := hi.uPos
    have hsz : 8 * (s.mp.objSz / 8) = s.mp.objSz := by have := hi.sz8; omega
    have hva := (hi.part a).mp (Or.inr ha)
    obtain ⟨_, k, hk, hw⟩ := hva
    have hfit : (k + 1) * (s.mp.objSz / 8) ≤ s.mp.incrNum * (s.mp.objSz / 8) := Nat.mul_le_mul_right _ hk
    have hwf := hi.wordsFit
    rw [Nat.succ_mul] at hfit
    refine ⟨?_, by omega, ?_⟩
    · have h1 := hl.aligned a.1
      have h2 := hcfg.page8
      have : base a.1 % 8 = 0 := by
        have := Nat.mod_mod_of_dvd (base a.1) (Nat.dvd_of_mod_eq_zero h2)
        omega
      simp only [byteAddr]; omega
    · intro b hb hne
      obtain ⟨_, k', hk', hw'⟩ := (hi.part b).mp (Or.inr hb)
      have hfit' : (k' + 1) * (s.mp.objSz / 8) ≤ s.mp.incrNum * (s.mp.objSz / 8) := Nat.mul_le_mul_right _ hk'
      rw [Nat.succ_mul] at hfit'
      simp only [byteAddr]
      by_cases hc : a.1 = b.1
      · have hkk : k ≠ k' := fun e => hne (Prod.ext hc.symm (by rw [hw, hw', e]))
        rw [hc, hw, hw']
        rcases Nat.lt_or_gt_of_ne hkk with hlt | hgt
        · have := Nat.mul_le_mul_right (s.mp.objSz / 8) (Nat.succ_le_of_lt hlt)
          rw [Nat.succ_mul] at this
          omega
        · have := Nat.mul_le_mul_right (s.mp.objSz / 8) (Nat.succ_le_of_lt hgt)
          rw [Nat.succ_mul] at this
          omega
      · rcases hl.apart a.1 b.1 hc with h1 | h1 <;> omega
  · rw [hnil] at ha; simp at ha

/-! ### free list and live set partition the object slots of all chunks; no double hand-out -/

theorem free_and_live_partition {cfg : Cfg} {s : MP} {fl live : List Addr} (h : Inv cfg s fl live) :
    Chain s.mem s.nextObj fl ∧ fl.Nodup ∧ live.Nodup ∧ (∀ a, a ∈ fl → a ∉ live) ∧
    ∀ a, (a ∈ fl ∨ a ∈ live) ↔ ValidObj s a :=
  ⟨h.chain, h.flNodup, h.liveNodup, h.disj, h.part⟩

/-- an allocation never returns an object the client still holds (it may return one that was given back) -/
theorem no_double_handout {cfg : Cfg} (hcfg : CfgOK cfg) {s : Sys} (h : Good cfg s) :
    ∃ s' a, step cfg s .alloc = .ok s' ∧ s'.live = a :: s.live ∧ a ∉ s.live ∧ Good cfg s' := by
  obtain ⟨s', a, h1, h2, h3, h4, _⟩ := step_alloc_good hcfg h
  exact ⟨s', a, h1, h3, h4, h2⟩

/-! ### contents: the allocator writes only the first word of objects that are free (being returned, or in a chunk
    that did not exist before); a store changes the one word it names -/

theorem alloc_writes_no_live_object {cfg : Cfg} (hcfg : CfgOK cfg) {s : Sys} (h : Good cfg s) :
    ∃ s', step cfg s .alloc = .ok s' ∧
      ∀ b, b ∈ s.live → ∀ j, j < s.mp.objSz / 8 → s'.mp.mem.get b.1 (b.2 + j) = s.mp.mem.get b.1 (b.2 + j) := by
  obtain ⟨s', _, h1, _, _, _, h5⟩ := step_alloc_good hcfg h
  exact ⟨s', h1, h5⟩

theorem free_writes_no_live_object {cfg : Cfg} {s : Sys} (h : Good cfg s) (i : Nat) :
    ∃ s', step cfg s (.free i) = .ok s' ∧
      ∀ b, b ∈ s'.live → b ∈ s.live ∧
        ∀ j, j < s.mp.objSz / 8 → s'.mp.mem.get b.1 (b.2 + j) = s.mp.mem.get b.1 (b.2 + j) := by
  obtain ⟨s', h1, _, h3⟩ := step_free_good i h
  exact ⟨s', h1, h3⟩

theorem store_changes_one_word {cfg : Cfg} {s : Sys} (h : Good cfg s) (i j v : Nat) :
    ∃ s', step cfg s (.write i j v) = .ok s' ∧ s'.live = s.live ∧
      ∀ b, b ∈ s.live → ∀ j', j' < s.mp.objSz / 8 → ¬ (s.live[i]? = some b ∧ j' = j) →
        s'.mp.mem.get b.1 (b.2 + j') = s.mp.mem.get b.1 (b.2 + j') := by
  obtain ⟨s', h1, _, h3, h4⟩ := step_write_good i j v h
  exact ⟨s', h1, h3, h4⟩

/-- End to end: after ANY client program, every word the client stored into an object it still holds (`shadow a j`
    = the last value stored into word `j` of `a` since `a` was allocated, by definition of `step`) is still in
    memory — across every expansion, growth of the chunk list, and reuse of returned objects in between. -/
theorem contents_stable {cfg : Cfg} (hcfg : CfgOK cfg) {s0 s : Sys} (h0 : Good cfg s0) {ops : List Op}
    (hr : run cfg s0 ops = .ok s) {a : Addr} (ha : a ∈ s.live) {j v : Nat} (hs : s.shadow a j = some v) :
    j < s.mp.objSz / 8 ∧ s.mp.mem.get a.1 (a.2 + j) = .data v := by
  obtain ⟨s', h1, g⟩ := run_good hcfg ops s0 h0
  rw [hr] at h1
  cases h1
  exact g.2 a ha j v hs

/-! ### the code as shipped: `cmi_realloc(mp->chunk_list, mp->chunk_list_len);` -/

/-- The shipped expand faults (store through the pointer realloc has invalidated) at the expansion that makes
    `chunk_list_cnt` reach `chunk_list_len`, from ANY pool state satisfying the invariant: with
    `CHUNK_LIST_SIZE = 64` that is the 64th chunk (the list grows one entry early). -/
theorem expandDefective_faults {cfg : Cfg} (hcfg : CfgOK cfg) {s : MP} {live : List Addr} (h : Inv cfg s [] live)
    (hg : s.listCnt + 1 = s.listLen) : expandDefective cfg s = .error .listStale :=
  expandDefective_faults_at_growth hcfg h hg

/-- taking realloc's result is not enough: with the element count as byte size the store is out of bounds -/
theorem expand_count_as_bytes_faults {cfg : Cfg} (hcfg : CfgOK cfg) {s : MP} {live : List Addr}
    (h : Inv cfg s [] live) (hg : s.listCnt + 1 = s.listLen) (hsmall : (s.listLen + cfg.cls) / 8 ≤ s.listCnt) :
    expandWith true 1 cfg s = .error (.listOob s.listCnt) :=
  expandWith_undersized_faults hcfg h hg hsmall

/-- the right byte size is not enough either: the result must be used -/
theorem expand_result_dropped_faults {cfg : Cfg} (hcfg : CfgOK cfg) {s : MP} {live : List Addr}
    (h : Inv cfg s [] live) (hg : s.listCnt + 1 = s.listLen) : expandWith false 8 cfg s = .error .listStale :=
  expandWith_dropResult_faults 8 hcfg h hg

/-! ### concrete instances (small parameters: page 16, CHUNK_LIST_SIZE 2, 8-byte objects, 2 per chunk) -/

theorem cfgSmall_ok : CfgOK cfgSmall := ⟨by decide, by decide, by decide, by decide⟩

/-- the shipped code: the third allocation needs the second chunk, `++cnt == len`, fault -/
theorem expandDefective_faults_small :
    faultOf (runWith stepDefective cfgSmall (newStatic 8 1) [.alloc, .alloc, .alloc]) = some .listStale := by
  decide

/-- the repaired code on the same program, and on across two growths of the chunk list (chunks 2 and 4) -/
example : faultOf (run cfgSmall (newStatic 8 1) [.alloc, .alloc, .alloc]) = none := by decide
example : liveOf (run cfgSmall (newStatic 8 1) (List.replicate 9 .alloc)) =
    [(4, 0), (3, 1), (3, 0), (2, 1), (2, 0), (1, 1), (1, 0), (0, 1), (0, 0)] := by decide

/-- one object per chunk (16-byte objects, 16-byte pages): every allocation opens a new chunk and returns its base;
    after giving one back the next allocation reuses it instead of expanding -/
example : liveOf (run cfgSmall (newStatic 16 1) (List.replicate 5 .alloc)) =
    [(4, 0), (3, 0), (2, 0), (1, 0), (0, 0)] := by decide
example : liveOf (run cfgSmall (newStatic 16 1) [.alloc, .alloc, .alloc, .free 1, .alloc, .alloc]) =
    [(3, 0), (1, 0), (2, 0), (0, 0)] := by decide
/-- objects larger than a page, one per two-page chunk (24-byte objects, chunks of 32 bytes) -/
example : liveOf (run cfgSmall (newStatic 24 1) (List.replicate 3 .alloc)) = [(2, 0), (1, 0), (0, 0)] := by decide

/-- a returned object is handed out again (LIFO), but only after it was returned -/
example : liveOf (run cfgSmall (newStatic 8 1) [.alloc, .alloc, .free 1, .alloc]) = [(0, 0), (0, 1)] := by decide

/-- the hypotheses of `alloc_distinct_aligned` are satisfiable: consecutive chunks -/
example {cfg : Cfg} {s : MP} {fl live : List Addr} (h : Inv cfg s fl live) :
    Layout cfg s (fun c => c * s.incrSz) :=
  { aligned := fun c => by
      obtain ⟨q, hq⟩ := Nat.dvd_of_mod_eq_zero h.isz
      show c * s.incrSz % cfg.page = 0
      rw [hq, Nat.mul_left_comm]
      exact Nat.mul_mod_right _ _
    apart := fun c c' hne => by
      rcases Nat.lt_or_gt_of_ne hne with hlt | hgt
      · left
        have := Nat.mul_le_mul_right s.incrSz (Nat.succ_le_of_lt hlt)
        rw [Nat.succ_mul] at this; exact this
      · right
        have := Nat.mul_le_mul_right s.incrSz (Nat.succ_le_of_lt hgt)
        rw [Nat.succ_mul] at this; exact this }

end CimbaModel.Props.C20
