/-
  C13 — a condition wakes exactly the satisfied waiters, also via observed guards
  Property theorems only (the process-layer model is CimbaModel/Sim; helper lemmas in CimbaModel/Sim/*).
-/
import CimbaModel.Sim.Basic
import CimbaModel.HashHeap.Orders
import CimbaModel.Sim.S3Cond
import CimbaModel.Sim.S3All

namespace CimbaModel.Props.C13
open CimbaModel CimbaModel.Sim CimbaModel.Event CimbaModel.Generated CimbaModel.HashHeap.SpecOrders
open CimbaModel.HashHeap (HTag Item Order HH WF abs liveTags)
open CimbaModel.Sim.S3 CimbaModel.KPQ

/-- the scenario-level predicates of condition waiters evaluate the documented state queries -/
theorem cond_predicates (w : World) (a b : Nat) :
    (evalDemand w (.cond 0 a b) = true ↔ w.flags.getD a 0 ≠ 0) ∧
    (∀ x, w.res[a]? = some x → (evalDemand w (.cond 1 a b) = true ↔ x.holder = none)) ∧
    (∀ x, w.bufs[a]? = some x → (evalDemand w (.cond 3 a b) = true ↔ b ≤ x.level)) := by
  refine ⟨by simp [evalDemand], ?_, ?_⟩ <;> intro x hx <;> simp [evalDemand, hx, Option.isNone_iff_eq_none]


/-! ### `cmb_condition_signal`

`condSat w gd` = the entries of the condition's waiting list, in heap-array order, whose predicate is true in `w`;
`condWakes w sat` = one wake-up (aCond, key, SUCCESS, the waiter's current priority) per element; `wakeEvs c t l` = the
pending-list segment obtained by scheduling `l` in order at time `t` after handle `c` (handles c+1, c+2, …). -/

/-- `signal_exact`: with `sat` = the waiters whose predicate is true at this moment (heap-array order), the condition
    signal schedules exactly one (aCond, SUCCESS) wake-up at the current time per element of `sat`, in that order, with
    the waiter's current priority; exactly those entries leave the queue — the others stay queued (`abs q'` is a
    permutation of the unsatisfied ones) —, nothing else changes, and the return value says whether anybody was woken -/
theorem signal_exact {w : World} {g : Nat} {gd : Guard} (hg : w.guards[g]? = some gd) (hwf : WF guard_queue_check gd.q)
    (hc : gd.q.count ≠ 0) :
    ∃ q', WF guard_queue_check q' ∧
      (abs q').Perm ((abs gd.q).filter fun x => !evalDemand w (demandOf gd x.key)) ∧
      condSignal w g = (setGuardQ (pushAll w (condWakes w (condSat w gd))) g q', decide ((condSat w gd).length > 0)) :=
  condSignal_spec hg hwf hc

/-- spelled out: the event queue afterwards is the batch on top of the old pending events; clock, processes, objects,
    event waiters, fault flag and every other guard are untouched -/
theorem signal_exact_events {w : World} {g : Nat} {gd : Guard} (hg : w.guards[g]? = some gd)
    (hwf : WF guard_queue_check gd.q) (hc : gd.q.count ≠ 0) :
    (condSignal w g).1.ev.pending = wakeEvs w.ev.counter w.now (condWakes w (condSat w gd)) ++ w.ev.pending ∧
    (condSignal w g).1.now = w.now ∧ (condSignal w g).1.procs = w.procs ∧ (condSignal w g).1.fault = w.fault ∧
    (condSignal w g).1.res = w.res ∧ (condSignal w g).1.pools = w.pools ∧ (condSignal w g).1.bufs = w.bufs ∧
    (condSignal w g).1.oqs = w.oqs ∧ (condSignal w g).1.pqs = w.pqs ∧ (condSignal w g).1.flags = w.flags ∧
    (condSignal w g).1.evWaiters = w.evWaiters ∧
    ∀ g', g' ≠ g → (condSignal w g).1.guards[g']? = w.guards[g']? :=
  condSignal_pending hg hwf hc

/-- who is in `sat`: exactly the live entries whose predicate is true now -/
theorem sat_iff {w : World} {gd : Guard} {t : HTag} :
    t ∈ condSat w gd ↔ t ∈ liveTags gd.q ∧ evalDemand w (demandOf gd t.key) = true := mem_condSat

/-- every wake-up of the batch: handle after the old counter, time = now, action aCond, success code, addressed to a
    satisfied waiter with its current priority; and there are exactly `sat.length` of them, subjects in `sat` order
    (the pending list is latest first) -/
theorem batch_events {w : World} {gd : Guard} :
    (∀ e ∈ wakeEvs w.ev.counter w.now (condWakes w (condSat w gd)),
      w.ev.counter < e.key ∧ e.d = w.now ∧
      ∃ t ∈ condSat w gd, e = mkEv e.key aCond (t.key - 1 + 1) sigSuccess w.now (w.proc (t.key - 1)).prio) ∧
    (wakeEvs w.ev.counter w.now (condWakes w (condSat w gd))).length = (condSat w gd).length ∧
    (wakeEvs w.ev.counter w.now (condWakes w (condSat w gd))).map (·.item.b) =
      ((condSat w gd).map fun t => t.key - 1 + 1).reverse := by
  refine ⟨?_, by simp [condWakes], ?_⟩
  · intro e he
    obtain ⟨hlo, _, hd, _, x, hx, heq⟩ := wakeEvs_props he
    simp only [condWakes, List.mem_map] at hx
    obtain ⟨t, ht, rfl⟩ := hx
    exact ⟨hlo, hd, t, ht, heq⟩
  · rw [wakeEvs_subjs]; simp [condWakes, List.map_map, Function.comp_def]

/-- a signal on an empty condition (or on a condition that does not exist) does nothing and returns false -/
theorem signal_empty {w : World} {g : Nat} :
    (w.guards[g]? = none → condSignal w g = (w, false)) ∧
    (∀ gd, w.guards[g]? = some gd → gd.q.count = 0 → condSignal w g = (w, false)) :=
  ⟨condSignal_none, fun _ hg hc => condSignal_empty hg hc⟩

/-! ### cancel and remove -/

/-- `cmb_condition_remove`: exactly the named process leaves the queue (`KPQ.remove`), without a wake-up; the return
    value says whether it was queued -/
theorem remove_exact {w : World} {p q : Pid} {c g : Nat} {gd : Guard} (hc : w.conds[c]? = some g)
    (hg : w.guards[g]? = some gd) (hwf : WF guard_queue_check gd.q) (hq : q < w.procs.size) :
    ∃ q', WF guard_queue_check q' ∧ (abs q').Perm (KPQ.remove (abs gd.q) (q + 1)) ∧
      execCmd w p (.condRemove c q) =
        (setGuardQ w g q', .ret (if q + 1 ∈ keys (abs gd.q) then 1 else 0) "") := by
  obtain ⟨q', _, hwf', hperm, heq⟩ := guardRemove_spec hg hwf q
  refine ⟨q', hwf', hperm, ?_⟩
  have : ¬ q ≥ w.procs.size := Nat.not_le.2 hq
  simp only [execCmd, hc, this, if_false, heq]
  by_cases hk : q + 1 ∈ keys (abs gd.q) <;> simp [hk]

/-- `cmb_condition_cancel`: exactly the named process leaves the queue and, if it was queued, is resumed with the
    CANCELLED code by an (aRes) wake-up at the current time with its current priority; the return value says whether
    it was queued -/
theorem cancel_exact {w : World} {p q : Pid} {c g : Nat} {gd : Guard} (hc : w.conds[c]? = some g)
    (hg : w.guards[g]? = some gd) (hwf : WF guard_queue_check gd.q) (hq : q < w.procs.size) :
    ∃ q', WF guard_queue_check q' ∧ (abs q').Perm (KPQ.remove (abs gd.q) (q + 1)) ∧
      execCmd w p (.condCancel c q) =
        (if q + 1 ∈ keys (abs gd.q) then
           (pushEv (setGuardQ w g q') aRes (q + 1) sigCancelled w.now (w.proc q).prio, .ret 1 "")
         else (setGuardQ w g q', .ret 0 "")) := by
  obtain ⟨q', _, hwf', hperm, heq⟩ := guardRemove_spec hg hwf q
  refine ⟨q', hwf', hperm, ?_⟩
  have : ¬ q ≥ w.procs.size := Nat.not_le.2 hq
  simp only [execCmd, hc, this, if_false, heq]
  by_cases hk : q + 1 ∈ keys (abs gd.q)
  · simp only [hk, decide_true, if_true]
    have := sched_now (setGuardQ w g q') aRes (q + 1) sigCancelled ((setGuardQ w g q').proc q).prio
    rw [this]; rfl
  · simp [hk]

/-- the entry of the named process is gone afterwards, every other entry is still there -/
theorem remove_takes_exactly {q q' : KPQ} {k : Nat} (h : q'.Perm (KPQ.remove q k)) (t : HTag) :
    t ∈ q' ↔ t ∈ q ∧ t.key ≠ k := by
  rw [h.mem_iff]; exact mem_remove

/-! ### forwarded signals: a condition observing a guard is signalled — as a condition — whenever that guard is signalled

`guardSignal fuel w g` is `cmb_resourceguard_signal`; `fwdSignal fuel w o` the delivery of the forwarded signal to the
observer `o` (the body of the loop of `forward_signal` in cmb_resourceguard.c); `hasHandler w o` says that `o` carries a
handler for forwarded signals, i.e. is the guard of a condition (`cmb_condition_initialize` installs it);
`frontStep w g gd` is the part of the signal that concerns `g`'s own waiting list (Props/C06, C08). -/

/-- a guard has a handler for forwarded signals exactly if it is the guard of a condition -/
theorem handler_iff_condition_guard {w : World} {o : Nat} : hasHandler w o = true ↔ ∃ c : Nat, w.conds[c]? = some o :=
  hasHandler_iff

/-- `forwarded_signal_is_condition_signal`: signalling a guard `g` performs `g`'s own front step and then delivers the
    signal to every observer, in list order; the delivery to an observer that is the guard of a condition is exactly
    `condSignal` on it — EVERY waiter is evaluated, not only the front one (`signal_exact` says what that does) —,
    after which the signal travels on to that condition's own observers; the delivery to any other observer is a plain
    guard signal of it -/
theorem forwarded_signal_is_condition_signal (fuel : Nat) (w : World) (g : Nat) (gd : Guard) (hg : w.guards[g]? = some gd) :
    guardSignal (fuel + 1) w g = gd.observers.foldl (fun w o => fwdSignal fuel w o) (frontStep w g gd) ∧
    (∀ (w' : World) (o : Nat), hasHandler w' o = true →
      fwdSignal (fuel + 1) w' o =
        match w'.guards[o]? with
        | none => w'
        | some od => od.observers.foldl (fun w o' => fwdSignal fuel w o') (condSignal w' o).1) ∧
    (∀ (w' : World) (o : Nat), hasHandler w' o = false → fwdSignal fuel w' o = guardSignal fuel w' o) := by
  refine ⟨by rw [guardSignal_succ, hg], fun w' o h => fwdSignal_handler h fuel, fun w' o h => fwdSignal_plain h fuel⟩

/- non-vacuity: a world with a condition whose well-formed queue holds a waiter (key 3 = process 2) exists -/
example : ∃ (w : World) (gd : Guard), w.conds[0]? = some 0 ∧ w.guards[0]? = some gd ∧ WF guard_queue_check gd.q ∧
    gd.q.count ≠ 0 ∧ 3 ∈ keys (abs gd.q) := by
  obtain ⟨s0, _, hwf0, habs0, _, hexp, _⟩ := HashHeap.init_spec (lt := guard_queue_check) 3 (by decide) (by decide)
  have hc0 : s0.count = 0 := by rw [← HashHeap.abs_length, habs0]; rfl
  obtain ⟨s1, _, hwf1, hperm, _⟩ := HashHeap.enqueue_abs hwf0 ⟨3, 0, 0, 0⟩ 3 0 0 (by simp) (by simp)
    (by rw [habs0]; simp [keys]) (Or.inl (by rw [hc0]; exact HashHeap.two_pow_pos _))
  refine ⟨{ guards := #[{ q := s1, isCond := true }], conds := #[0] }, { q := s1, isCond := true }, rfl, rfl, hwf1, ?_, ?_⟩
  · have : 0 < s1.count := by rw [← HashHeap.abs_length, hperm.length_eq]; simp [KPQ.insert]
    exact Nat.pos_iff_ne_zero.1 this
  · have : (⟨3, 0, ⟨3, 0, 0, 0⟩, 0, 0⟩ : HTag) ∈ abs s1 := hperm.mem_iff.2 (by simp [KPQ.insert, norm])
    exact List.mem_map.2 ⟨_, this, rfl⟩


/-! ### in every reachable state

`AllInv` (Props/C04, Sim/S3All) is an invariant of `dispatch`; its clauses give the hypotheses of the theorems above and
the ownership of condition wake-ups: -/

theorem cond_lists_wellformed {w0 w : World} (hr : Reach w0 w) (h0 : AllInv w0) (g : Nat) (gd : Guard)
    (hg : w.guards[g]? = some gd) : WF guard_queue_check gd.q := (h0.reach hr).g.gw g gd hg

/-- a pending condition wake-up is addressed to a process suspended in `cond_wait` that still awaits the condition's
    guard, is already off its waiting list, and has no second wake-up / grant pending -/
theorem cond_wakeup_owned {w0 w : World} (hr : Reach w0 w) (h0 : AllInv w0) {e : HTag} (he : e ∈ w.ev.pending)
    (ha : e.item.a = aCond) :
    (∃ c, (w.proc (e.item.b - 1)).blocked = some (.condWait c)) ∧
    ∃ p g f, e.item.b = p + 1 ∧ (w.proc p).blocked = some f ∧ FrameOn w f g ∧ guardAw w p = [.guard g] ∧
      ¬ queued w g (p + 1) ∧ (∀ g', ¬ queued w g' (p + 1)) ∧
      ∀ e' ∈ w.ev.pending, isGrant e' → e'.item.b = p + 1 → e' = e :=
  ⟨(h0.reach hr).g.cond_owned he ha, (h0.reach hr).g.grant_owned he (Or.inr ha)⟩

/-- the waiters of a condition are suspended in `cond_wait` -/
theorem cond_waiters_in_cond_wait {w0 w : World} (hr : Reach w0 w) (h0 : AllInv w0) {c g k : Nat}
    (hc : w.conds[c]? = some g) (hq : queued w g k) : ∃ c', (w.proc (k - 1)).blocked = some (.condWait c') :=
  (h0.reach hr).g.gkc c g hc k hq (noEx_not _)

end CimbaModel.Props.C13
