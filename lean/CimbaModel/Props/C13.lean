/-
  C13 — a condition wakes exactly the satisfied waiters, also via observed guards
  Property theorems only (the process-layer model is CimbaModel/Sim; helper lemmas in CimbaModel/Sim/*).
-/
import CimbaModel.Sim.Basic
import CimbaModel.HashHeap.Orders
import CimbaModel.Sim.S3Cond
import CimbaModel.Sim.S3All
import CimbaModel.Sim.S6Fwd

namespace CimbaModel.Props.C13
open CimbaModel CimbaModel.Sim CimbaModel.Event CimbaModel.Generated CimbaModel.HashHeap.SpecOrders
open CimbaModel.HashHeap (HTag Item Order HH WF abs liveTags)
open CimbaModel.Sim.S3 CimbaModel.KPQ

/-- the scenario-level predicates of condition waiters evaluate the documented state queries -/
theorem cond_predicates (w : World) (a b : Nat) :
    (evalDemand w (.cond 0 a b) = true ↔ w.flags.getD a 0 ≠ 0) ∧
    (∀ x, w.res[a]? = some x → (evalDemand w (.cond 1 a b) = true ↔ x.holder = none)) ∧
    (∀ x, w.bufs[a]? = some x → (evalDemand w (.cond 3 a b) = true ↔ b ≤ x.level)) := by
  refine ⟨by simp [evalDemand], ?_, ?_⟩ <;> intro x hx <;> simp [evalDemand, hx, Option.isNone_iff_eq_none]


/-! ### `cmb_condition_signal`

`condSat w gd` = the entries of the condition's waiting list, in heap-array order, whose predicate is true in `w`;
`condWakes w sat` = one wake-up (aCond, key, SUCCESS, the waiter's current priority) per element; `wakeEvs c t l` = the
pending-list segment obtained by scheduling `l` in order at time `t` after handle `c` (handles c+1, c+2, …). -/

/-- `signal_exact`: with `sat` = the waiters whose predicate is true at this moment (heap-array order), the condition
    signal schedules exactly one (aCond, SUCCESS) wake-up at the current time per element of `sat`, in that order, with
    the waiter's current priority; exactly those entries leave the queue — the others stay queued (`abs q'` is a
    permutation of the unsatisfied ones) —, nothing else changes, and the return value says whether anybody was woken -/
theorem signal_exact {w : World} {g : Nat} {gd : Guard} (hg : w.guards[g]? = some gd) (hwf : WF guard_queue_check gd.q)
    (hc : gd.q.count ≠ 0) :
    ∃ q', WF guard_queue_check q' ∧
      (abs q').Perm ((abs gd.q).filter fun x => !evalDemand w (demandOf gd x.key)) ∧
      condSignal w g = (setGuardQ (pushAll w (condWakes w (condSat w gd))) g q', decide ((condSat w gd).length > 0)) :=
  condSignal_spec hg hwf hc

/-- spelled out: the event queue afterwards is the batch on top of the old pending events; clock, processes, objects,
    event waiters, fault flag and every other guard are untouched -/
theorem signal_exact_events {w : World} {g : Nat} {gd : Guard} (hg : w.guards[g]? = some gd)
    (hwf : WF guard_queue_check gd.q) (hc : gd.q.count ≠ 0) :
    (condSignal w g).1.ev.pending = wakeEvs w.ev.counter w.now (condWakes w (condSat w gd)) ++ w.ev.pending ∧
    (condSignal w g).1.now = w.now ∧ (condSignal w g).1.procs = w.procs ∧ (condSignal w g).1.fault = w.fault ∧
    (condSignal w g).1.res = w.res ∧ (condSignal w g).1.pools = w.pools ∧ (condSignal w g).1.bufs = w.bufs ∧
    (condSignal w g).1.oqs = w.oqs ∧ (condSignal w g).1.pqs = w.pqs ∧ (condSignal w g).1.flags = w.flags ∧
    (condSignal w g).1.evWaiters = w.evWaiters ∧
    ∀ g', g' ≠ g → (condSignal w g).1.guards[g']? = w.guards[g']? :=
  condSignal_pending hg hwf hc

/-- who is in `sat`: exactly the live entries whose predicate is true now -/
theorem sat_iff {w : World} {gd : Guard} {t : HTag} :
    t ∈ condSat w gd ↔ t ∈ liveTags gd.q ∧ evalDemand w (demandOf gd t.key) = true := mem_condSat

/-- every wake-up of the batch: handle after the old counter, time = now, action aCond, success code, addressed to a
    satisfied waiter with its current priority; and there are exactly `sat.length` of them, subjects in `sat` order
    (the pending list is latest first) -/
theorem batch_events {w : World} {gd : Guard} :
    (∀ e ∈ wakeEvs w.ev.counter w.now (condWakes w (condSat w gd)),
      w.ev.counter < e.key ∧ e.d = w.now ∧
      ∃ t ∈ condSat w gd, e = mkEv e.key aCond (t.key - 1 + 1) sigSuccess w.now (w.proc (t.key - 1)).prio) ∧
    (wakeEvs w.ev.counter w.now (condWakes w (condSat w gd))).length = (condSat w gd).length ∧
    (wakeEvs w.ev.counter w.now (condWakes w (condSat w gd))).map (·.item.b) =
      ((condSat w gd).map fun t => t.key - 1 + 1).reverse := by
  refine ⟨?_, by simp [condWakes], ?_⟩
  · intro e he
    obtain ⟨hlo, _, hd, _, x, hx, heq⟩ := wakeEvs_props he
    simp only [condWakes, List.mem_map] at hx
    obtain ⟨t, ht, rfl⟩ := hx
    exact ⟨hlo, hd, t, ht, heq⟩
  · rw [wakeEvs_subjs]; simp [condWakes, List.map_map, Function.comp_def]

/-- a signal on an empty condition (or on a condition that does not exist) does nothing and returns false -/
theorem signal_empty {w : World} {g : Nat} :
    (w.guards[g]? = none → condSignal w g = (w, false)) ∧
    (∀ gd, w.guards[g]? = some gd → gd.q.count = 0 → condSignal w g = (w, false)) :=
  ⟨condSignal_none, fun _ hg hc => condSignal_empty hg hc⟩

/-! ### cancel and remove -/

/-- `cmb_condition_remove`: exactly the named process leaves the queue (`KPQ.remove`), without a wake-up; the return
    value says whether it was queued -/
theorem remove_exact {w : World} {p q : Pid} {c g : Nat} {gd : Guard} (hc : w.conds[c]? = some g)
    (hg : w.guards[g]? = some gd) (hwf : WF guard_queue_check gd.q) (hq : q < w.procs.size) :
    ∃ q', WF guard_queue_check q' ∧ (abs q').Perm (KPQ.remove (abs gd.q) (q + 1)) ∧
      execCmd w p (.condRemove c q) =
        (setGuardQ w g q', .ret (if q + 1 ∈ keys (abs gd.q) then 1 else 0) "") := by
  obtain ⟨q', _, hwf', hperm, heq⟩ := guardRemove_spec hg hwf q
  refine ⟨q', hwf', hperm, ?_⟩
  have : ¬ q ≥ w.procs.size := Nat.not_le.2 hq
  simp only [execCmd, hc, this, if_false, heq]
  by_cases hk : q + 1 ∈ keys (abs gd.q) <;> simp [hk]

/-- `cmb_condition_cancel`: exactly the named process leaves the queue and, if it was queued, is resumed with the
    CANCELLED code by an (aRes) wake-up at the current time with its current priority; the return value says whether
    it was queued -/
theorem cancel_exact {w : World} {p q : Pid} {c g : Nat} {gd : Guard} (hc : w.conds[c]? = some g)
    (hg : w.guards[g]? = some gd) (hwf : WF guard_queue_check gd.q) (hq : q < w.procs.size) :
    ∃ q', WF guard_queue_check q' ∧ (abs q').Perm (KPQ.remove (abs gd.q) (q + 1)) ∧
      execCmd w p (.condCancel c q) =
        (if q + 1 ∈ keys (abs gd.q) then
           (pushEv (setGuardQ w g q') aRes (q + 1) sigCancelled w.now (w.proc q).prio, .ret 1 "")
         else (setGuardQ w g q', .ret 0 "")) := by
  obtain ⟨q', _, hwf', hperm, heq⟩ := guardRemove_spec hg hwf q
  refine ⟨q', hwf', hperm, ?_⟩
  have : ¬ q ≥ w.procs.size := Nat.not_le.2 hq
  simp only [execCmd, hc, this, if_false, heq]
  by_cases hk : q + 1 ∈ keys (abs gd.q)
  · simp only [hk, decide_true, if_true]
    have := sched_now (setGuardQ w g q') aRes (q + 1) sigCancelled ((setGuardQ w g q').proc q).prio
    rw [this]; rfl
  · simp [hk]

/-- the entry of the named process is gone afterwards, every other entry is still there -/
theorem remove_takes_exactly {q q' : KPQ} {k : Nat} (h : q'.Perm (KPQ.remove q k)) (t : HTag) :
    t ∈ q' ↔ t ∈ q ∧ t.key ≠ k := by
  rw [h.mem_iff]; exact mem_remove

/-! ### forwarded signals: a condition observing a guard is signalled — as a condition — whenever that guard is signalled

`guardSignal fuel w g` is `cmb_resourceguard_signal`; `fwdSignal fuel w o` the delivery of the forwarded signal to the
observer `o` (the body of the loop of `forward_signal` in cmb_resourceguard.c); `hasHandler w o` says that `o` carries a
handler for forwarded signals, i.e. is the guard of a condition (`cmb_condition_initialize` installs it);
`frontStep w g gd` is the part of the signal that concerns `g`'s own waiting list (Props/C06, C08). -/

/-- a guard has a handler for forwarded signals exactly if it is the guard of a condition -/
theorem handler_iff_condition_guard {w : World} {o : Nat} : hasHandler w o = true ↔ ∃ c : Nat, w.conds[c]? = some o :=
  hasHandler_iff

/-- `forwarded_signal_is_condition_signal`: signalling a guard `g` performs `g`'s own front step and then delivers the
    signal to every observer, in list order; the delivery to an observer that is the guard of a condition is exactly
    `condSignal` on it — EVERY waiter is evaluated, not only the front one (`signal_exact` says what that does) —,
    after which the signal travels on to that condition's own observers; the delivery to any other observer is a plain
    guard signal of it -/
theorem forwarded_signal_is_condition_signal (fuel : Nat) (w : World) (g : Nat) (gd : Guard) (hg : w.guards[g]? = some gd) :
    guardSignal (fuel + 1) w g = gd.observers.foldl (fun w o => fwdSignal fuel w o) (frontStep w g gd) ∧
    (∀ (w' : World) (o : Nat), hasHandler w' o = true →
      fwdSignal (fuel + 1) w' o =
        match w'.guards[o]? with
        | none => w'
        | some od => od.observers.foldl (fun w o' => fwdSignal fuel w o') (condSignal w' o).1) ∧
    (∀ (w' : World) (o : Nat), hasHandler w' o = false → fwdSignal fuel w' o = guardSignal fuel w' o) := by
  refine ⟨by rw [guardSignal_succ, hg], fun w' o h => fwdSignal_handler h fuel, fun w' o h => fwdSignal_plain h fuel⟩

/-- the usual shape of a subscription (every scenario the loader builds has it): all observers of `g` are guards of
    conditions that have no observers themselves. Then the complete signal of `g` is `g`'s own front step followed by
    `condSignal` on every observing condition, in list order -/
theorem signal_is_front_then_condition_signals {fuel : Nat} {w : World} {g : Nat} {gd : Guard} (hg : w.guards[g]? = some gd)
    (hobs : ∀ o ∈ gd.observers, hasHandler w o = true ∧ Leaf w o) :
    guardSignal (fuel + 2) w g = gd.observers.foldl (fun w o => (condSignal w o).1) (frontStep w g gd) :=
  guardSignal_cond_observers hg hobs

/-- one observing condition `o`, spelled out at full strength: the signal of `g` is `g`'s own front step and then exactly
    the condition signal of `o` evaluated in the state the signal finds — one (aCond, SUCCESS) wake-up at the current time
    with the waiter's current priority per waiter of `o` whose predicate holds, in heap-array order (`condSat w od`),
    scheduled on top of what the front step leaves; `o`'s waiting list keeps exactly the waiters whose predicate does not
    hold; no other component is touched (closed form) -/
theorem forwarded_signal_exact {fuel : Nat} {w : World} {g o : Nat} {gd od : Guard} (hg : w.guards[g]? = some gd)
    (hobs : gd.observers = [o]) (hh : hasHandler w o = true) (hl : Leaf w o) (hne : o ≠ g)
    (hod : w.guards[o]? = some od) (hwfg : WF guard_queue_check gd.q) (hwf : WF guard_queue_check od.q)
    (hc : od.q.count ≠ 0) :
    ∃ q', WF guard_queue_check q' ∧ (abs q').Perm ((abs od.q).filter fun x => !evalDemand w (demandOf od x.key)) ∧
      guardSignal (fuel + 2) w g = setGuardQ (pushAll (frontStep w g gd) (condWakes w (condSat w od))) o q' :=
  guardSignal_one_cond_observer hg hobs hh hl hne hod hwfg hwf hc

/-- `Observes w g o gd od`: guard `g` is observed by exactly the guard `o` of a condition, which has no observers of its own,
    and all waiting lists are well-formed (true in every reachable state: `cond_lists_wellformed`).
    `FwdWoken w W g o gd od` — what then holds of `W = signal w g`: (pending) the new events are the condition batch on top of
    what `g`'s own front step leaves; (batch) every event of the batch is an (aCond, SUCCESS) wake-up at the current time
    with its subject's current priority; (once) EXACTLY ONE per waiter of `o` whose predicate holds in `w`, none for anybody
    else; (queue) `o`'s waiting list keeps exactly the waiters whose predicate does not hold; (others, procs, now, objs)
    every other guard is as `g`'s front step leaves it, processes, clock, objects, flags and event waiters are untouched -/
theorem observer_waiters_resumed_on_signal {w : World} {g o : Nat} {gd od : Guard} (h : Observes w g o gd od) :
    FwdWoken w (signal w g) g o gd od := h.signal

/-- the sentence of the property: every waiter `k` of the observing condition whose predicate holds at the moment the
    observed guard is signalled has an (aCond, SUCCESS) wake-up pending at that very time, with its priority, and is off
    the condition's list — wherever it stands in that list —; a waiter whose predicate does not hold stays queued -/
theorem observer_waiter_resumed_iff_satisfied {w : World} {g o : Nat} {gd od : Guard} (h : Observes w g o gd od) {k : Nat}
    (hk : k ∈ keys (abs od.q)) :
    (evalDemand w (demandOf od k) = true →
      (∃ e ∈ (signal w g).ev.pending, w.ev.counter < e.key ∧
        e = mkEv e.key aCond k sigSuccess w.now (w.proc (k - 1)).prio) ∧
      ∃ od', (signal w g).guards[o]? = some od' ∧ k ∉ keys (abs od'.q)) ∧
    (evalDemand w (demandOf od k) = false → ∃ od', (signal w g).guards[o]? = some od' ∧ k ∈ keys (abs od'.q)) :=
  h.signal.resumed hk

/-! #### the built-in objects

Every state change that can make a waiter's predicate true is `signal w1 g` with `w1` the recorded updated state
(Props/C08); the observing condition is therefore signalled with the NEW state: `FwdWoken w1 …`, and the predicates on that
object evaluate in `w1` as stated. (`w1` differs from `w` only in the object, its history and the holder's list of holdings:
clock, events, flags and priorities are those of `w`.) -/

/-- `observer_waiters_resumed_on_release`: a resource released by its holder — every waiter of the observing condition that
    waits for this resource to be free (`cond 1 r _`) has a true predicate in the state the forwarded signal sees, hence
    (by `FwdWoken.once` / `resumed`) exactly one wake-up, whatever its position in the condition's list -/
theorem observer_waiters_resumed_on_release {w : World} {p : Pid} {r : Nat} {x : Res} (hx : w.res[r]? = some x)
    (hh : x.holder = some p) {o : Nat} {gd od : Guard} (ho : Observes w x.guard o gd od) :
    ∃ w1 : World, (execCmd w p (.release r)).1 = signal w1 x.guard ∧ FwdWoken w1 (signal w1 x.guard) x.guard o gd od ∧
      (∀ b, evalDemand w1 (.cond 1 r b) = true) ∧
      w1.now = w.now ∧ w1.ev = w.ev ∧ w1.flags = w.flags ∧ ∀ q, (w1.proc q).prio = (w.proc q).prio :=
  release_fwd hx hh ho

/-- … so: all of them are resumed by the release -/
theorem release_resumes_all_waiters_for_the_resource {w : World} {p : Pid} {r : Nat} {x : Res} (hx : w.res[r]? = some x)
    (hh : x.holder = some p) {o : Nat} {gd od : Guard} (ho : Observes w x.guard o gd od) {k b : Nat}
    (hk : k ∈ keys (abs od.q)) (hd : demandOf od k = .cond 1 r b) :
    (∃ e ∈ (execCmd w p (.release r)).1.ev.pending, w.ev.counter < e.key ∧
      e = mkEv e.key aCond k sigSuccess w.now (w.proc (k - 1)).prio) ∧
    ∃ od', (execCmd w p (.release r)).1.guards[o]? = some od' ∧ k ∉ keys (abs od'.q) := by
  obtain ⟨w1, heq, hf, hev, hnow, hevq, _, hpr⟩ := release_fwd hx hh ho
  rw [heq]
  have := (hf.resumed hk).1 (by rw [hd]; exact hev b)
  rw [hnow, hevq, hpr] at this
  exact this

/-- a resource dropped at the end / stop of its holder -/
theorem observer_waiters_resumed_on_drop {w : World} (p : Pid) {r : Nat} {x : Res} (hx : w.res[r]? = some x)
    {o : Nat} {gd od : Guard} (ho : Observes w x.guard o gd od) :
    ∃ w1 : World, dropStep p w (.res r) = signal w1 x.guard ∧ FwdWoken w1 (signal w1 x.guard) x.guard o gd od ∧
      (∀ b, evalDemand w1 (.cond 1 r b) = true) ∧ w1.now = w.now ∧ w1.ev = w.ev ∧ w1.procs = w.procs :=
  dropRes_fwd p hx ho

/-- units of a pool released by a holder -/
theorem observer_waiters_resumed_on_pool_release {w : World} {p : Pid} {pl n : Nat} {x : Pool} (hx : w.pools[pl]? = some x)
    (hn : ¬ (n = 0 ∨ n > heldAmount w pl p)) {o : Nat} {gd od : Guard} (ho : Observes w x.guard o gd od) :
    ∃ w1 : World, (execCmd w p (.poolRelease pl n)).1 = signal w1 x.guard ∧ FwdWoken w1 (signal w1 x.guard) x.guard o gd od ∧
      (∀ b, evalDemand w1 (.cond 2 pl b) = decide (x.cap - (x.inUse - n) ≥ b)) ∧
      w1.now = w.now ∧ w1.ev = w.ev ∧ ∀ q, (w1.proc q).prio = (w.proc q).prio :=
  poolRelease_fwd hx hn ho

/-- the holder record of a pool dropped at the end / stop of the holder -/
theorem observer_waiters_resumed_on_pool_drop {w : World} {pl : Nat} {p : Pid} {x : Pool} {i : Nat} {h' : HH} {bb : Bool}
    (hx : w.pools[pl]? = some x) (hi : HashHeap.findIndex x.holders (p + 1) = .ok (i + 1))
    (hr : HashHeap.remove holder_queue_check x.holders (p + 1) = .ok (h', bb))
    {o : Nat} {gd od : Guard} (ho : Observes w x.guard o gd od) :
    ∃ w1 : World, poolDropHolder w pl p = signal w1 x.guard ∧ FwdWoken w1 (signal w1 x.guard) x.guard o gd od ∧
      (∀ n, evalDemand w1 (.cond 2 pl n) = decide (x.cap - (x.inUse - (x.holders.heap.getD (i + 1) {}).item.b) ≥ n)) ∧
      w1.now = w.now ∧ w1.ev = w.ev ∧ w1.procs = w.procs :=
  poolDrop_fwd hx hi hr ho

/-- a put that fits into a buffer (condition observing the getters' guard) / a get the buffer can serve (condition observing
    the putters' guard): the first signal of the call is that of the observed guard -/
theorem observer_waiters_resumed_on_buffer {w : World} {p : Pid} {b rem : Nat} {x : Buf} (hx : w.bufs[b]? = some x)
    {o : Nat} {gd od : Guard} :
    (∀ left, x.cap - x.level ≥ rem → Observes w x.front o gd od →
      ∃ w1 : World, (bufPutLoop w p b rem left).1 =
          (if x.level + rem < x.cap then signal (signal w1 x.front) x.rear else signal w1 x.front) ∧
        FwdWoken w1 (signal w1 x.front) x.front o gd od ∧
        (∀ n, evalDemand w1 (.cond 3 b n) = decide (x.level + rem ≥ n)) ∧ w1.now = w.now ∧ w1.ev = w.ev ∧ w1.procs = w.procs) ∧
    (∀ got, x.level ≥ rem → Observes w x.rear o gd od →
      ∃ w1 : World, (bufGetLoop w p b rem got).1 =
          (if x.level - rem > 0 then signal (signal w1 x.rear) x.front else signal w1 x.rear) ∧
        FwdWoken w1 (signal w1 x.rear) x.rear o gd od ∧
        (∀ n, evalDemand w1 (.cond 3 b n) = decide (x.level - rem ≥ n)) ∧ w1.now = w.now ∧ w1.ev = w.ev ∧ w1.procs = w.procs) :=
  ⟨fun _ hl ho => bufPut_fwd hx hl ho, fun _ hl ho => bufGet_fwd hx hl ho⟩

/-- a put into an object queue with space (condition observing the getters' guard) / a get from a non-empty one (condition
    observing the putters' guard) -/
theorem observer_waiters_resumed_on_object_queue {w : World} {p : Pid} {q : Nat} {x : OQ} (hx : w.oqs[q]? = some x)
    {o : Nat} {gd od : Guard} :
    (∀ obj, x.items.length < x.cap → Observes w x.front o gd od →
      ∃ w1 : World, (oqPutLoop w p q obj).1 = signal w1 x.front ∧ FwdWoken w1 (signal w1 x.front) x.front o gd od ∧
        (∀ n, evalDemand w1 (.cond 4 q n) = decide (x.items.length + 1 ≥ n)) ∧ w1.now = w.now ∧ w1.ev = w.ev ∧ w1.procs = w.procs) ∧
    (∀ it rest, x.items = it :: rest → Observes w x.rear o gd od →
      ∃ w1 : World, (oqGetLoop w p q).1 = signal w1 x.rear ∧ FwdWoken w1 (signal w1 x.rear) x.rear o gd od ∧
        (∀ n, evalDemand w1 (.cond 4 q n) = decide (rest.length ≥ n)) ∧ w1.now = w.now ∧ w1.ev = w.ev ∧ w1.procs = w.procs) :=
  ⟨fun _ hl ho => oqPut_fwd hx hl ho, fun _ _ hi ho => oqGet_fwd hx hi ho⟩

/- non-vacuity 1 (the hypotheses of `release_resumes_all_waiters_for_the_resource` are satisfiable, with TWO waiters behind
   each other): a resource (guard 0) held by process 0 and observed by a condition (guard 1) on whose well-formed list
   processes 1 and 2 (keys 2 and 3) wait, both for the resource to be free -/
example : ∃ (w : World) (x : Res) (gd od : Guard), w.res[0]? = some x ∧ x.holder = some 0 ∧ Observes w x.guard 1 gd od ∧
    2 ∈ keys (abs od.q) ∧ 3 ∈ keys (abs od.q) ∧ demandOf od 2 = .cond 1 0 0 ∧ demandOf od 3 = .cond 1 0 0 := by
  obtain ⟨s0, _, hwf0, habs0, _, hexp, _⟩ := HashHeap.init_spec (lt := guard_queue_check) 3 (by decide) (by decide)
  have hc0 : s0.count = 0 := by rw [← HashHeap.abs_length, habs0]; rfl
  obtain ⟨s1, _, hwf1, hperm1, _, _, hexp1, hc1⟩ := HashHeap.enqueue_abs hwf0 ⟨2, 0, 0, 0⟩ 2 0 5 (by simp) (by simp)
    (by rw [habs0]; simp [keys]) (Or.inl (by rw [hc0]; exact HashHeap.two_pow_pos _))
  have hk1 : keys (abs s1) = [2] := by
    have := (hperm1.map (·.key)); rw [habs0] at this
    exact List.perm_singleton.1 (by simpa [keys, KPQ.insert, norm] using this)
  obtain ⟨s2, _, hwf2, hperm2, _⟩ := HashHeap.enqueue_abs hwf1 ⟨3, 0, 0, 0⟩ 3 0 0 (by simp) (by simp)
    (by rw [hk1]; simp) (Or.inl (by
      have : 2 ^ 3 ≤ 2 ^ s1.exp := Nat.pow_le_pow_right (by decide) (by omega)
      omega))
  have hmem : ∀ k, k ∈ keys (abs s2) ↔ k = 3 ∨ k ∈ keys (abs s1) := by
    intro k
    have := (hperm2.map (·.key)).mem_iff (a := k)
    simpa [keys, KPQ.insert, norm] using this
  let gd : Guard := { q := s0, observers := [1] }
  let od : Guard := { q := s2, isCond := true, demands := [(3, .cond 1 0 0), (2, .cond 1 0 0)] }
  refine ⟨{ guards := #[gd, od], res := #[{ holder := some 0, guard := 0 }], conds := #[1],
            procs := #[{ status := .running, held := [.res 0] }, { prio := 5, status := .running },
                       { status := .running }] },
          { holder := some 0, guard := 0 }, gd, od, rfl, rfl, ?_, ?_, ?_, rfl, rfl⟩
  · refine ⟨rfl, rfl, by simp [hasHandler], ?_, by decide, rfl, ?_⟩
    · intro od' hod'
      have : od' = od := by simpa using hod'.symm
      rw [this]
    · intro g' gd' hg'
      match g', hg' with
      | 0, h => have : gd' = gd := by simpa using h.symm
                rw [this]; exact hwf0
      | 1, h => have : gd' = od := by simpa using h.symm
                rw [this]; exact hwf2
      | n + 2, h => simp at h
  · exact (hmem 2).2 (Or.inr (by rw [hk1]; simp))
  · exact (hmem 3).2 (Or.inl rfl)

/- non-vacuity 2 (computed): in `fwdWorld` processes 1 (priority 5) and 2 (priority 0) stand one behind the other on the
   condition's list (keys 2, 3), both waiting for resource 0, which process 0 holds. Process 0 releases it: BOTH get their
   (aCond, SUCCESS) wake-up at the current time with their own priority, the condition's list is empty afterwards, and
   nobody waits on the resource's own guard (before the repair only key 2, the front waiter, was woken — through aRes) -/
example :
    (fwdWorld.guards[1]?.map fun gd => keys (abs gd.q)) = some [2, 3] ∧
    ((execCmd fwdWorld 0 (.release 0)).1.ev.pending.map fun e => (e.key, e.item.a, e.item.b, decSig e.item.c, e.d, e.i)) =
      [(2, aCond, 3, sigSuccess, 0, 0), (1, aCond, 2, sigSuccess, 0, 5)] ∧
    ((execCmd fwdWorld 0 (.release 0)).1.guards[1]?.map fun gd => gd.q.count) = some 0 ∧
    (execCmd fwdWorld 0 (.release 0)).1.fault = none := by
  decide +kernel

/- non-vacuity: a world with a condition whose well-formed queue holds a waiter (key 3 = process 2) exists -/
example : ∃ (w : World) (gd : Guard), w.conds[0]? = some 0 ∧ w.guards[0]? = some gd ∧ WF guard_queue_check gd.q ∧
    gd.q.count ≠ 0 ∧ 3 ∈ keys (abs gd.q) := by
  obtain ⟨s0, _, hwf0, habs0, _, hexp, _⟩ := HashHeap.init_spec (lt := guard_queue_check) 3 (by decide) (by decide)
  have hc0 : s0.count = 0 := by rw [← HashHeap.abs_length, habs0]; rfl
  obtain ⟨s1, _, hwf1, hperm, _⟩ := HashHeap.enqueue_abs hwf0 ⟨3, 0, 0, 0⟩ 3 0 0 (by simp) (by simp)
    (by rw [habs0]; simp [keys]) (Or.inl (by rw [hc0]; exact HashHeap.two_pow_pos _))
  refine ⟨{ guards := #[{ q := s1, isCond := true }], conds := #[0] }, { q := s1, isCond := true }, rfl, rfl, hwf1, ?_, ?_⟩
  · have : 0 < s1.count := by rw [← HashHeap.abs_length, hperm.length_eq]; simp [KPQ.insert]
    exact Nat.pos_iff_ne_zero.1 this
  · have : (⟨3, 0, ⟨3, 0, 0, 0⟩, 0, 0⟩ : HTag) ∈ abs s1 := hperm.mem_iff.2 (by simp [KPQ.insert, norm])
    exact List.mem_map.2 ⟨_, this, rfl⟩


/-! ### in every reachable state

`AllInv` (Props/C04, Sim/S3All) is an invariant of `dispatch`; its clauses give the hypotheses of the theorems above and
the ownership of condition wake-ups: -/

theorem cond_lists_wellformed {w0 w : World} (hr : Reach w0 w) (h0 : AllInv w0) (g : Nat) (gd : Guard)
    (hg : w.guards[g]? = some gd) : WF guard_queue_check gd.q := (h0.reach hr).g.gw g gd hg

/-- a pending condition wake-up is addressed to a process suspended in `cond_wait` that still awaits the condition's
    guard, is already off its waiting list, and has no second wake-up / grant pending -/
theorem cond_wakeup_owned {w0 w : World} (hr : Reach w0 w) (h0 : AllInv w0) {e : HTag} (he : e ∈ w.ev.pending)
    (ha : e.item.a = aCond) :
    (∃ c, (w.proc (e.item.b - 1)).blocked = some (.condWait c)) ∧
    ∃ p g f, e.item.b = p + 1 ∧ (w.proc p).blocked = some f ∧ FrameOn w f g ∧ guardAw w p = [.guard g] ∧
      ¬ queued w g (p + 1) ∧ (∀ g', ¬ queued w g' (p + 1)) ∧
      ∀ e' ∈ w.ev.pending, isGrant e' → e'.item.b = p + 1 → e' = e :=
  ⟨(h0.reach hr).g.cond_owned he ha, (h0.reach hr).g.grant_owned he (Or.inr ha)⟩

/-- in a reachable state the well-formedness part of `Observes` comes from the invariant: only the static shape of the
    subscription (one observing condition without observers of its own) remains to be supplied -/
theorem observes_of_reachable {w0 w : World} (hr : Reach w0 w) (h0 : AllInv w0) {g o : Nat} {gd od : Guard}
    (hg : w.guards[g]? = some gd) (hobs : gd.observers = [o]) (hh : hasHandler w o = true) (hl : Leaf w o) (hne : o ≠ g)
    (hod : w.guards[o]? = some od) : Observes w g o gd od :=
  ⟨hg, hobs, hh, hl, hne, hod, (h0.reach hr).g.gw⟩

/-- … hence, in every reachable state, a release of an observed resource resumes every waiter of the observing condition
    that waits for that resource, wherever it stands in the condition's list -/
theorem release_resumes_all_waiters_reachable {w0 w : World} (hr : Reach w0 w) (h0 : AllInv w0) {p : Pid} {r : Nat} {x : Res}
    (hx : w.res[r]? = some x) (hh : x.holder = some p) {o : Nat} {gd od : Guard}
    (hg : w.guards[x.guard]? = some gd) (hobs : gd.observers = [o]) (hc : hasHandler w o = true) (hl : Leaf w o)
    (hne : o ≠ x.guard) (hod : w.guards[o]? = some od) {k b : Nat} (hk : k ∈ keys (abs od.q))
    (hd : demandOf od k = .cond 1 r b) :
    (∃ e ∈ (execCmd w p (.release r)).1.ev.pending, w.ev.counter < e.key ∧
      e = mkEv e.key aCond k sigSuccess w.now (w.proc (k - 1)).prio) ∧
    ∃ od', (execCmd w p (.release r)).1.guards[o]? = some od' ∧ k ∉ keys (abs od'.q) :=
  release_resumes_all_waiters_for_the_resource hx hh (observes_of_reachable hr h0 hg hobs hc hl hne hod) hk hd

/-- the waiters of a condition are suspended in `cond_wait` -/
theorem cond_waiters_in_cond_wait {w0 w : World} (hr : Reach w0 w) (h0 : AllInv w0) {c g k : Nat}
    (hc : w.conds[c]? = some g) (hq : queued w g k) : ∃ c', (w.proc (k - 1)).blocked = some (.condWait c') :=
  (h0.reach hr).g.gkc c g hc k hq (noEx_not _)

end CimbaModel.Props.C13
