/-
  C13 — a condition wakes exactly the satisfied waiters, also via observed guards
  Property theorems only (the process-layer model is CimbaModel/Sim; helper lemmas in CimbaModel/Sim/*).
-/
import CimbaModel.Sim.Basic
import CimbaModel.HashHeap.Orders

namespace CimbaModel.Props.C13
open CimbaModel CimbaModel.Sim CimbaModel.Event CimbaModel.Generated CimbaModel.HashHeap.SpecOrders
open CimbaModel.HashHeap (HTag Item Order HH)

/-- the scenario-level predicates of condition waiters evaluate the documented state queries -/
theorem cond_predicates (w : World) (a b : Nat) :
    (evalDemand w (.cond 0 a b) = true ↔ w.flags.getD a 0 ≠ 0) ∧
    (∀ x, w.res[a]? = some x → (evalDemand w (.cond 1 a b) = true ↔ x.holder = none)) ∧
    (∀ x, w.bufs[a]? = some x → (evalDemand w (.cond 3 a b) = true ↔ b ≤ x.level)) := by
  refine ⟨by simp [evalDemand], ?_, ?_⟩ <;> intro x hx <;> simp [evalDemand, hx, Option.isNone_iff_eq_none]

end CimbaModel.Props.C13
