/-
  C03 — context switches preserve execution state and deliver messages.
  Property theorems only; the machine model is Ctx/X86.lean, the instruction lists are regenerated from the
  assembled object on every run (Generated/CtxAsm.lean), helper lemmas live in Ctx/Switch.lean.
-/
import CimbaModel.Ctx.Switch
import CimbaModel.Ctx.CoLemmas
import CimbaModel.Ctx.Examples

namespace CimbaModel.Props.C03
open CimbaModel.Ctx CimbaModel.Generated

/-! ## the machine part: for ALL register, flag, MXCSR and memory contents -/

/-- The switch writes memory only in the 64 bytes below the outgoing stack pointer (RFLAGS image, MXCSR slot,
    rbp, rbx, r12–r15) and in the 8 bytes at `*old` (rdi). -/
theorem switch_frame_only (s : State) (a : W) (h1 : a ∉ frameAddrs s.rsp) (h2 : a ≠ s.rdi) :
    (exec switchCode s).mem a = s.mem a :=
  switch_mem_other s a h1 h2

/-- Round trip.  Coroutine A calls the switch in machine state `s` (`rdi = old = &A.stack_pointer`, return
    address at `[rsp]`).  Then anything may happen — any number of other coroutines, any code — as long as A's
    saved context (`savedAddrs s.rsp`: the return address and the eight words below it) and the word
    `*old` hold what the switch left there (`hF`, `hP`).  Eventually somebody calls the switch in state `s₂` with
    `new = &A.stack_pointer` and message `v`, from a stack whose outgoing frame and `*old` do not overlap A's
    saved context and `&A.stack_pointer` (`hd2`).  Then A continues at its return address with every callee-saved
    register, MXCSR, the user-visible flags and the stack pointer as it left them, and `rax = v`. -/
theorem switch_roundtrip (s s₂ : State) (v : W)
    (hmx : s.mxcsr &&& mxcsrReserved = 0#32) (hal : al s.rsp = true)
    (hd1 : s.rdi ∉ savedAddrs s.rsp)
    (hF : ∀ a ∈ savedAddrs s.rsp, s₂.mem a = (exec switchCode s).mem a)
    (hP : s₂.mem s.rdi = (exec switchCode s).mem s.rdi)
    (hnew : s₂.rsi = s.rdi) (hmsg : s₂.rdx = v)
    (hd2 : ∀ a ∈ s.rdi :: savedAddrs s.rsp, a ∉ frameAddrs s₂.rsp ∧ a ≠ s₂.rdi)
    (hok : s₂.ok = true) (hal2 : al s₂.rsp = true) (hal2d : al s₂.rdi = true) (hal2s : al s₂.rsi = true) :
    (∀ r ∈ calleeSaved, (exec switchCode s₂).get r = s.get r) ∧
    (exec switchCode s₂).mxcsr = s.mxcsr ∧
    userFlags (exec switchCode s₂) = userFlags s ∧
    (exec switchCode s₂).rsp = s.rsp + 8#64 ∧
    (exec switchCode s₂).rip = s.mem s.rsp ∧
    (exec switchCode s₂).rax = v ∧
    (exec switchCode s₂).ok = true := by
  obtain ⟨vsp, v15, v14, v13, v12, vbx, vbp, vmx, vfl, vret⟩ := switch_save s hd1
  have hn : s₂.mem s₂.rsi = s.rsp - 64#64 := by rw [hnew, hP, vsp]
  have hd : ∀ a ∈ s₂.rsi :: frameWords (s.rsp - 64#64), a ∉ frameAddrs s₂.rsp ∧ a ≠ s₂.rdi := by
    intro a ha
    rcases List.mem_cons.mp ha with h | h
    · exact hd2 a (by rw [h, hnew]; exact List.mem_cons_self ..)
    · exact hd2 a (List.mem_cons_of_mem _ ((savedAddrs_eq_frameWords s.rsp a).mpr h))
  generalize hs₁ : exec switchCode s = s₁ at *
  generalize hs₃ : exec switchCode s₂ = s₃
  obtain ⟨l15, l14, l13, l12, lbx, lbp, lmx, lfl, lip, lsp, lax, lok⟩ :=
    switch_into s₂ (s.rsp - 64#64) hn hd s₃ hs₃.symm
  obtain ⟨e8, e16, e24, e32, e40, e48, e56, e64, e72⟩ := frame_addr_eqs s.rsp
  have F := hF
  have f15 := F (s.rsp - 64#64) (by simp [savedAddrs, frameAddrs])
  have f14 := F (s.rsp - 56#64) (by simp [savedAddrs, frameAddrs])
  have f13 := F (s.rsp - 48#64) (by simp [savedAddrs, frameAddrs])
  have f12 := F (s.rsp - 40#64) (by simp [savedAddrs, frameAddrs])
  have fbx := F (s.rsp - 32#64) (by simp [savedAddrs, frameAddrs])
  have fbp := F (s.rsp - 24#64) (by simp [savedAddrs, frameAddrs])
  have fmx := F (s.rsp - 16#64) (by simp [savedAddrs, frameAddrs])
  have ffl := F (s.rsp - 8#64) (by simp [savedAddrs, frameAddrs])
  have frt := F s.rsp (by simp [savedAddrs])
  rw [e8] at l14; rw [e16] at l13; rw [e24] at l12; rw [e32] at lbx; rw [e40] at lbp
  rw [e48] at lmx lok; rw [e56] at lfl; rw [e64] at lip; rw [e72] at lsp
  refine ⟨?_, ?_, ?_, lsp, ?_, ?_, ?_⟩
  · intro r hr
    simp only [calleeSaved, List.mem_cons, List.not_mem_nil, or_false] at hr
    rcases hr with h | h | h | h | h | h <;> subst h <;> simp only [State.get]
    · rw [lbx, fbx, vbx]
    · rw [lbp, fbp, vbp]
    · rw [l12, f12, v12]
    · rw [l13, f13, v13]
    · rw [l14, f14, v14]
    · rw [l15, f15, v15]
  · rw [lmx, fmx, vmx]
  · rw [lfl, ffl, vfl, pushf_user]; rfl
  · rw [lip, frt, vret]
  · rw [lax, hmsg]
  · rw [lok hok hal2 hal2d hal2s, fmx, vmx, hmx, al_sub _ _ (by decide), hal]; rfl

/-- The same, with "anything may happen" spelled out: between A's switch-out and the switch back into A, any number
    of context switches of other coroutines (issued from stacks and with `old` slots that do not contain A's saved
    context or `&A.stack_pointer`) and any other code that does not write those 10 words may run, in any order
    (`acts`, by induction over the list: `protected_survives`). -/
theorem switch_roundtrip_any_interleaving (s : State) (acts : List Act) (v : W)
    (hmx : s.mxcsr &&& mxcsrReserved = 0#32) (hal : al s.rsp = true)
    (hd1 : s.rdi ∉ savedAddrs s.rsp)
    (hacts : Respects (s.rdi :: savedAddrs s.rsp) acts (exec switchCode s))
    (hnew : (runActs acts (exec switchCode s)).rsi = s.rdi) (hmsg : (runActs acts (exec switchCode s)).rdx = v)
    (hd2 : ∀ a ∈ s.rdi :: savedAddrs s.rsp,
      a ∉ frameAddrs (runActs acts (exec switchCode s)).rsp ∧ a ≠ (runActs acts (exec switchCode s)).rdi)
    (hok : (runActs acts (exec switchCode s)).ok = true) (hal2 : al (runActs acts (exec switchCode s)).rsp = true)
    (hal2d : al (runActs acts (exec switchCode s)).rdi = true)
    (hal2s : al (runActs acts (exec switchCode s)).rsi = true) :
    (∀ r ∈ calleeSaved, (exec switchCode (runActs acts (exec switchCode s))).get r = s.get r) ∧
    (exec switchCode (runActs acts (exec switchCode s))).mxcsr = s.mxcsr ∧
    userFlags (exec switchCode (runActs acts (exec switchCode s))) = userFlags s ∧
    (exec switchCode (runActs acts (exec switchCode s))).rsp = s.rsp + 8#64 ∧
    (exec switchCode (runActs acts (exec switchCode s))).rip = s.mem s.rsp ∧
    (exec switchCode (runActs acts (exec switchCode s))).rax = v ∧
    (exec switchCode (runActs acts (exec switchCode s))).ok = true := by
  have hsurv := protected_survives (s.rdi :: savedAddrs s.rsp) acts (exec switchCode s) hacts
  exact switch_roundtrip s (runActs acts (exec switchCode s)) v hmx hal hd1
    (fun a ha => hsurv a (List.mem_cons_of_mem _ ha)) (hsurv s.rdi (List.mem_cons_self ..)) hnew hmsg hd2 hok hal2 hal2d hal2s

/-- First entry.  `cmi_coroutine_context_init` has left `initFrame` below `stack_base` (16-aligned) and
    `stack_pointer = stack_base - 72` (tie: frame-image correspondence).  The first switch into the coroutine
    "returns" into the trampoline with the stack pointer back at `stack_base`; the trampoline's `call` then
    reaches the coroutine function with rdi = coroutine pointer, rsi = context argument, rsp ≡ 8 (mod 16) as the
    ABI requires at function entry, the documented initial MXCSR, the direction flag clear, and the trampoline's
    return point on top of the stack. -/
theorem first_entry (s : State) (tramp fn cp ctx exitf base : W)
    (hbase : base.toNat % 16 = 0)
    (hnew : s.mem s.rsi = base - 72#64)
    (hfr : FrameAt s.mem (base - 72#64) (initFrame tramp fn cp ctx exitf base))
    (hd : ∀ a ∈ s.rsi :: frameWords (base - 72#64), a ∉ frameAddrs s.rsp ∧ a ≠ s.rdi)
    (hok : s.ok = true) (hal : al s.rsp = true) (hald : al s.rdi = true) (hals : al s.rsi = true) :
    (exec switchCode s).rip = tramp ∧ (exec switchCode s).rsp = base ∧ userFlags (exec switchCode s) = 0#64 ∧
    (exec trampCode (exec switchCode s)).rip = fn ∧
    (exec trampCode (exec switchCode s)).rdi = cp ∧
    (exec trampCode (exec switchCode s)).rsi = ctx ∧
    (exec trampCode (exec switchCode s)).rsp = base - 8#64 ∧
    (exec trampCode (exec switchCode s)).rsp.toNat % 16 = 8 ∧
    (exec trampCode (exec switchCode s)).mxcsr = initMxcsr ∧
    (exec trampCode (exec switchCode s)).rflags &&& 0x400#64 = 0#64 ∧
    (exec trampCode (exec switchCode s)).rbp = base - 40#64 ∧
    (exec trampCode (exec switchCode s)).r15 = exitf ∧
    (exec trampCode (exec switchCode s)).mem (base - 8#64) = tramp + 12#64 ∧
    (exec trampCode (exec switchCode s)).ok = true := by
  generalize hs₁ : exec switchCode s = s₁
  obtain ⟨l15, l14, l13, l12, lbx, lbp, lmx, lfl, lip, lsp, lax, lok⟩ :=
    switch_into s (base - 72#64) hnew hd s₁ hs₁.symm
  simp only [FrameAt, initFrame, BitVec.add_assoc, BitVec.reduceAdd] at hfr
  obtain ⟨f15, f14, f13, f12, fbx, fbp, fmx, ffl, frt, -⟩ := hfr
  rw [f15] at l15; rw [f14] at l14; rw [f13] at l13; rw [f12] at l12; rw [fbp] at lbp
  rw [fmx, hi32_mk64] at lmx; rw [ffl] at lfl; rw [frt] at lip
  have hsp : s₁.rsp = base := by rw [lsp]; bv_omega
  have hfl0 : userFlags s₁ = 0#64 := by rw [lfl]; simp
  have hal1 : al s₁.rsp = true := by rw [hsp]; unfold al; simp; omega
  have hok1 : s₁.ok = true := by
    rw [lok hok hal hald hals, fmx, hi32_mk64]
    have : al (base - 72#64) = true := by rw [al_sub _ _ (by decide)]; unfold al; simp; omega
    rw [this]; decide
  generalize hs₂ : exec trampCode s₁ = e
  obtain ⟨tip, tdi, tsi, tax, tsp, tret, tmx, tbx, tbp, t12, t13, t14, t15, tok, -, tdf⟩ := by
    have := tramp_entry s₁; rw [hs₂] at this; exact this
  refine ⟨lip, hsp, hfl0, ?_, ?_, ?_, ?_, ?_, ?_, ?_, ?_, ?_, ?_, ?_⟩
  · rw [tip, l12]
  · rw [tdi, l13]
  · rw [tsi, l14]
  · rw [tsp, hsp]
  · rw [tsp, hsp]; bv_omega
  · rw [tmx, lmx]
  · rw [tdf]
    have : s₁.rflags &&& 0x400#64 = (s₁.rflags &&& userMask) &&& 0x400#64 := by
      rw [BitVec.and_assoc]; rfl
    rw [this]; unfold userFlags at hfl0; rw [hfl0]; simp
  · rw [tbp, lbp]
  · rw [t15, l15]
  · rw [← hsp, tret, lip]
  · rw [tok, hok1, hal1]; rfl

/-- The stores that `cmi_coroutine_context_init` performs (regenerated from the C source on every run) leave
    exactly `initFrame` in the nine words below `stack_base`, touch nothing else, and leave the stack pointer at
    `stack_base - 72` — whether the MXCSR image is written by the shipped misaligned 8-byte store or by a 32-bit
    store (Ctx/Frame.lean: `shipped_image`, `patched_image`, `shipped_misaligned`). -/
theorem init_frame_image (m : HMem) (tramp fn cp ctx exitf base : W) :
    (List.range 9).map (image (runStores m (currentStores tramp fn cp ctx exitf base)))
      = initFrame tramp fn cp ctx exitf base ∧
    currentSpBelow = 72 ∧
    ∀ x, (x = 0 ∨ 72 < x) → runStores m (currentStores tramp fn cp ctx exitf base) x = m x := by
  refine ⟨?_, rfl, ?_⟩
  · simp [List.range, List.range.loop, image, runStores, currentStores, CStore.apply, initFrame, mk64_hi_lo, initMxcsr]
    all_goals (first | rfl | (refine ⟨?_, ?_⟩ <;> rfl))
  · intro x h
    have h1 : x ≠ 8 ∧ x ≠ 16 ∧ x ≠ 20 ∧ x ≠ 24 ∧ x ≠ 32 ∧ x ≠ 40 ∧ x ≠ 48 ∧ x ≠ 56 ∧ x ≠ 64 ∧ x ≠ 72 := by omega
    have h2 : x ≠ 4 ∧ x ≠ 12 ∧ x ≠ 28 ∧ x ≠ 36 ∧ x ≠ 44 ∧ x ≠ 52 ∧ x ≠ 60 ∧ x ≠ 68 := by omega
    simp [runStores, currentStores, CStore.apply, h1, h2]


/-- Return of the coroutine function.  `e` is the state at the function's entry as `first_entry` describes it;
    when the function returns `v`, the instruction fetched at the return address is the second half of the
    trampoline, which jumps to the exit function with rdi = v and rsp ≡ 8 (mod 16), i.e. exactly as if the exit
    function had been called. -/
theorem return_goes_to_exit (e t : State) (tramp exitf base v : W)
    (hbase : base.toNat % 16 = 0)
    (hsp : e.rsp = base - 8#64) (hret : e.mem e.rsp = tramp + 12#64) (h15 : e.r15 = exitf)
    (ht : SysVReturn e t v) :
    ∃ tail, codeFrom trampCode (t.rip - tramp).toNat = some tail ∧
      (exec tail t).rip = exitf ∧ (exec tail t).rdi = v ∧ (exec tail t).rsp = base - 8#64 ∧
      (exec tail t).rsp.toNat % 16 = 8 ∧ ((exec tail t).ok = t.ok) := by
  obtain ⟨tail, hcode, heff⟩ := tramp_return_code
  obtain ⟨rip, rsp, regs, rax⟩ := ht
  have h12 : (t.rip - tramp).toNat = 12 := by rw [rip, hret]; bv_omega
  have hrsp : t.rsp = base := by rw [rsp, hsp]; bv_omega
  refine ⟨tail, by rw [h12]; exact hcode, ?_⟩
  obtain ⟨eip, edi, esp, eok, -⟩ := heff t
  refine ⟨?_, ?_, ?_, ?_, ?_⟩
  · rw [eip, ← h15]; exact regs .r15 (by simp [calleeSaved])
  · rw [edi, rax]
  · rw [esp, hrsp]
  · rw [esp, hrsp]; bv_omega
  · rw [eok, hrsp]
    have : al base = true := by unfold al; simp; omega
    rw [this]; simp

/-! ## the bookkeeping part: `coroutine_current`, caller, parent, status, exit value, over arbitrary scripts

  `Reach s` = `s` is reached from the initial state by *some* script (any number of coroutines, any interleaving of
  create / start / resume / transfer / yield / exit / return / stop / reset) that hits no assert.  The invariant
  behind `Reach.inv` and the two persistence lemmas (`suspended_pending`, `finished_inert`) are inductions over
  the script (Ctx/CoLemmas.lean). -/

section bookkeeping
open CimbaModel.Ctx.Co

/-- A yield passes control to the coroutine that last resumed / transferred into / started the yielding one
    (`caller`), which continues inside the switching call it is suspended in (script index `k`) with the yielded
    value as that call's return value; the yielder is now suspended inside this yield. -/
theorem yield_returns_to_caller {s s' : St} {ev : Ev} {m : Val} (hreach : Reach s)
    (h : step s (.yield m) = .ok (s', ev)) :
    ∃ c k, (s.co s.cur).caller = some c ∧ s'.cur = c ∧ ev = .deliver c m (some k) ∧
      (c ≠ s.cur → (s.co c).pending = some k ∧ (s'.co s.cur).pending = some s.clock) ∧
      (s'.co c).caller = some s.cur := by
  have inv := hreach.inv
  unfold Co.step at h
  split at h
  · rename_i s1 ev1 hc
    simp only [Except.ok.injEq, Prod.mk.injEq] at h
    obtain ⟨rfl, rfl⟩ := h
    simp only [stepCore, transferTo] at hc
    (repeat' split at hc) <;> simp only [Except.ok.injEq, Prod.mk.injEq, reduceCtorEq] at hc
    obtain ⟨rfl, rfl⟩ := hc
    rename_i c hcaller hin hst _
    have hrun : (s.co c).status = .running := by simpa using hst
    by_cases hcc : c = s.cur
    · refine ⟨c, s.clock, hcaller, rfl, by simp [arrival, hcc], fun h => absurd hcc h, by simp [switchTo, St.tick]⟩
    · obtain ⟨k, hk⟩ := inv.suspended c hcc hcc hrun
      refine ⟨c, k, hcaller, rfl, by simp [arrival, hcc, hk], fun _ => ⟨hk, ?_⟩, by simp [switchTo, St.tick]⟩
      simp [switchTo, St.tick, Ne.symm hcc]
  · cases h


/-- **Values are returned by the matching call.**  The current coroutine `x` issues `op` at script index `s.clock`
    and thereby gives up control; then others do anything at all (`mid`) while `x` never has control; then `op₂`
    brings control back to `x`.  Unless `op₂` restarts `x` from its entry, what arrives is: the call issued at
    `s.clock` returns the value `op₂` handed over. -/
theorem value_returns_from_matching_call {s s₁ s₂ s₃ : St} {op op₂ : Op} {ev₁ ev₃ : Ev} {mid : List Op}
    {log : List (Cid × Ev)}
    (h1 : step s op = .ok (s₁, ev₁)) (hgone : s₁.cur ≠ s.cur)
    (hsus : Suspended s.cur s₁ mid) (hmid : run s₁ mid = .ok (s₂, log))
    (h3 : step s₂ op₂ = .ok (s₃, ev₃)) (hback : s₃.cur = s.cur) :
    ev₃ = .deliver s.cur op₂.msg (some s.clock) ∨
    (ev₃ = .enter s.cur (s₂.co s.cur).ctx ∧ ∃ m, op₂ = .start s.cur m) := by
  have p1 := step_gives_up h1 hgone
  obtain ⟨p2, c2⟩ := suspended_pending mid hsus hmid
  have hne : s₃.cur ≠ s₂.cur := by rw [hback]; exact Ne.symm c2
  rcases step_arrive h3 hne with h | h
  · left; rw [h, hback, p2, p1]
  · right; rw [hback] at h; exact h

/-- the value given to a resume is the result of the matching yield ... -/
theorem resume_value_is_yield_result {s s₁ s₂ s₃ : St} {m v : Val} {ev₁ ev₃ : Ev} {mid : List Op}
    {log : List (Cid × Ev)}
    (h1 : step s (.yield m) = .ok (s₁, ev₁)) (hgone : s₁.cur ≠ s.cur)
    (hsus : Suspended s.cur s₁ mid) (hmid : run s₁ mid = .ok (s₂, log))
    (h3 : step s₂ (.resume s.cur v) = .ok (s₃, ev₃)) :
    s₃.cur = s.cur ∧ ev₃ = .deliver s.cur v (some s.clock) := by
  have hback : s₃.cur = s.cur := by
    unfold Co.step at h3
    split at h3
    · rename_i s' ev' hc
      simp only [Except.ok.injEq, Prod.mk.injEq] at h3
      obtain ⟨rfl, rfl⟩ := h3
      simp only [stepCore, transferTo] at hc
      (repeat' split at hc) <;> simp only [Except.ok.injEq, Prod.mk.injEq, reduceCtorEq] at hc
      obtain ⟨rfl, rfl⟩ := hc
      rfl
    · cases h3
  refine ⟨hback, ?_⟩
  rcases value_returns_from_matching_call h1 hgone hsus hmid h3 hback with h | ⟨-, m', h⟩
  · exact h
  · cases h

/-- ... and vice versa: the value given to a yield is the result of the resume (or transfer) that the coroutine it
    goes to is suspended in. -/
theorem yield_value_is_resume_result {s s₁ s₂ s₃ : St} {x : Cid} {m v : Val} {ev₁ ev₃ : Ev} {mid : List Op}
    {log : List (Cid × Ev)}
    (h1 : step s (.resume x v) = .ok (s₁, ev₁)) (hgone : s₁.cur ≠ s.cur)
    (hsus : Suspended s.cur s₁ mid) (hmid : run s₁ mid = .ok (s₂, log))
    (h3 : step s₂ (.yield m) = .ok (s₃, ev₃)) (hback : s₃.cur = s.cur) :
    ev₃ = .deliver s.cur m (some s.clock) := by
  rcases value_returns_from_matching_call h1 hgone hsus hmid h3 hback with h | ⟨-, m', h⟩
  · exact h
  · cases h

/-- Exit (explicit, or by returning from the coroutine function): the value becomes the exit value, the status
    FINISHED, and both stay so — and the coroutine never has control — whatever happens afterwards, until somebody
    re-creates, resets or restarts it. -/
theorem exit_value_stored {s s' : St} {op : Op} {ev : Ev} {v : Val} (hreach : Reach s)
    (hop : op = .exit v ∨ op = .ret v) (h : step s op = .ok (s', ev)) :
    (s'.co s.cur).exitv = v ∧ (s'.co s.cur).status = .finished ∧
    ∀ (ops : List Op) (s'' : St) (log : List (Cid × Ev)), (∀ o ∈ ops, o.revives s.cur = false) →
      run s' ops = .ok (s'', log) →
      (s''.co s.cur).exitv = v ∧ (s''.co s.cur).status = .finished ∧ Suspended s.cur s' ops := by
  have inv := hreach.inv
  unfold Co.step at h
  split at h
  · rename_i s1 ev1 hc
    simp only [Except.ok.injEq, Prod.mk.injEq] at h
    obtain ⟨rfl, rfl⟩ := h
    have hc' : exitCur s v = .ok (s1, ev1) := by
      rcases hop with rfl | rfl <;> simpa [stepCore] using hc
    obtain ⟨p, k, -, hpc, hcur, -, -, -, hv, hf, -⟩ := exitCur_effect inv hc'
    refine ⟨by simpa [St.tick] using hv, by simpa [St.tick] using hf, ?_⟩
    intro ops s'' log hrev hrun
    have hne : s1.tick.cur ≠ s.cur := by simp [St.tick, hcur, hpc]
    obtain ⟨f2, e2, c2⟩ := finished_inert ops (by simpa [St.tick] using hf) hne hrev hrun
    exact ⟨by rw [e2]; simpa [St.tick] using hv, f2, c2⟩
  · cases h

/-- Exit transfers to the parent — the coroutine that started it — which continues inside the call it is
    suspended in (the start, or whatever it issued last) with the exit value as that call's return value. -/
theorem exit_transfers_to_parent {s s' : St} {op : Op} {ev : Ev} {v : Val} (hreach : Reach s)
    (hop : op = .exit v ∨ op = .ret v) (h : step s op = .ok (s', ev)) :
    ∃ p k, (s.co s.cur).parent = some p ∧ p ≠ s.cur ∧ s'.cur = p ∧ ev = .deliver p v (some k) ∧
      (s.co p).pending = some k ∧ (s'.co p).caller = some s.cur := by
  have inv := hreach.inv
  unfold Co.step at h
  split at h
  · rename_i s1 ev1 hc
    simp only [Except.ok.injEq, Prod.mk.injEq] at h
    obtain ⟨rfl, rfl⟩ := h
    have hc' : exitCur s v = .ok (s1, ev1) := by
      rcases hop with rfl | rfl <;> simpa [stepCore] using hc
    obtain ⟨p, k, hp, hpc, hcur, hev, hk, hcaller, -⟩ := exitCur_effect inv hc'
    exact ⟨p, k, hp, hpc, by simpa [St.tick] using hcur, hev, hk, by simpa [St.tick] using hcaller⟩
  · cases h

/-- Stopping another coroutine: no control transfer, it is FINISHED with the given exit value, nothing else
    changes, and it never has control again until it is re-created, reset or restarted. -/
theorem stop_other_marks_finished {s s' : St} {c : Cid} {ev : Ev} {v : Val} (hc : c ≠ s.cur)
    (h : step s (.stop c v) = .ok (s', ev)) :
    ev = .none ∧ s'.cur = s.cur ∧ (s'.co c).status = .finished ∧ (s'.co c).exitv = v ∧
    (∀ x, x ≠ c → s'.co x = s.co x) ∧
    ∀ (ops : List Op) (s'' : St) (log : List (Cid × Ev)), (∀ o ∈ ops, o.revives c = false) →
      run s' ops = .ok (s'', log) →
      (s''.co c).exitv = v ∧ (s''.co c).status = .finished ∧ Suspended c s' ops := by
  unfold Co.step at h
  split at h
  · rename_i s1 ev1 hcore
    simp only [Except.ok.injEq, Prod.mk.injEq] at h
    obtain ⟨rfl, rfl⟩ := h
    simp only [stepCore, hc, if_false] at hcore
    (repeat' split at hcore) <;> simp only [Except.ok.injEq, Prod.mk.injEq, reduceCtorEq] at hcore
    obtain ⟨rfl, rfl⟩ := hcore
    have hv : ((s.upd c fun x => { x with exitv := v, status := .finished }).tick.co c).exitv = v := by
      simp [St.upd, St.tick]
    have hf : ((s.upd c fun x => { x with exitv := v, status := .finished }).tick.co c).status = .finished := by
      simp [St.upd, St.tick]
    refine ⟨rfl, by simp [St.upd, St.tick], hf, hv, ?_, ?_⟩
    · intro x hx; simp [St.upd, St.tick, hx]
    · intro ops s'' log hrev hrun
      obtain ⟨f2, e2, c2⟩ := finished_inert ops hf (by simpa [St.upd, St.tick] using Ne.symm hc) hrev hrun
      exact ⟨by rw [e2]; exact hv, f2, c2⟩
  · cases h

/-- Restart (reset, then start): the coroutine function is entered from its beginning with its own handle and
    context argument — whatever call it had been suspended in is forgotten —, the restarting coroutine is its
    parent and caller, the exit value is cleared. -/
theorem restart_runs_from_entry {s s' : St} {c : Cid} {m : Val} {log : List (Cid × Ev)}
    (h : run s [.reset c, .start c m] = .ok (s', log)) :
    log = [(s.cur, .none), (s.cur, .enter c (s.co c).ctx)] ∧ s'.cur = c ∧
    (s'.co c).parent = some s.cur ∧ (s'.co c).caller = some s.cur ∧ (s'.co c).status = .running ∧
    (s'.co c).exitv = 0 ∧ (s'.co c).pending = none ∧ (s'.co s.cur).pending = some (s.clock + 1) :=
  restart_effect h

end bookkeeping

/-! ## non-vacuity: the hypotheses of the machine theorems are satisfiable, the bookkeeping machine runs -/

example : (exec switchCode exC).rbx = 0xb0b#64 ∧ (exec switchCode exC).rax = 99#64 ∧
    (exec switchCode exC).rsp = 0x10008#64 ∧ (exec switchCode exC).mxcsr = 0x7f80#32 := by
  have h := switch_roundtrip exA exC 99#64 (by decide) (by simp [al, exA]) (by simp [exA, savedAddrs, frameAddrs])
    (fun _ _ => rfl) rfl rfl rfl
    (by simp [exA, exC, savedAddrs, frameAddrs]) rfl (by simp [al, exC]) (by simp [al, exC, exA]) (by simp [al, exC, exA])
  obtain ⟨h1, h2, -, h4, -, h6, -⟩ := h
  exact ⟨h1 .rbx (by decide), h6, h4, h2⟩

example : (exec trampCode (exec switchCode exS)).rip = 0x402000#64 ∧
    (exec trampCode (exec switchCode exS)).rdi = 0x30000#64 ∧
    (exec trampCode (exec switchCode exS)).rsi = 0x77#64 ∧
    (exec trampCode (exec switchCode exS)).rsp.toNat % 16 = 8 := by
  have h := first_entry exS 0x401000#64 0x402000#64 0x30000#64 0x77#64 0x403000#64 0x90000#64 (by decide)
    (by simp [exS, exM, upd]) (by simp [exS, exM, upd, FrameAt, initFrame])
    (by simp [exS, exA, frameWords, frameAddrs]) rfl (by simp [al, exS, exA]) (by simp [al, exS, exA])
    (by simp [al, exS, exA])
  exact ⟨h.2.2.2.1, h.2.2.2.2.1, h.2.2.2.2.2.1, h.2.2.2.2.2.2.2.1⟩

open CimbaModel.Ctx.Co in
example : (run init [.create 1 101, .create 2 102, .start 1 5, .start 2 6, .yield 7, .resume 2 8, .ret 9, .exit 4]).toOption.map (·.2)
    = some [(0, .none), (0, .none), (0, .enter 1 101), (1, .enter 2 102), (2, .deliver 1 7 (some 3)),
            (1, .deliver 2 8 (some 4)), (2, .deliver 1 9 (some 5)), (1, .deliver 0 4 (some 2))] := by
  decide


end CimbaModel.Props.C03
