/-
  C03 — context switches preserve execution state and deliver messages.
  Property theorems only; the machine model is Ctx/X86.lean, the instruction lists are regenerated from the
  assembled object on every run (Generated/CtxAsm.lean), helper lemmas live in Ctx/Switch.lean.
-/
import CimbaModel.Ctx.Switch

namespace CimbaModel.Props.C03
open CimbaModel.Ctx CimbaModel.Generated

/-! ## the machine part: for ALL register, flag, MXCSR and memory contents -/

/-- The switch writes memory only in the 64 bytes below the outgoing stack pointer (RFLAGS image, MXCSR slot,
    rbp, rbx, r12–r15) and in the 8 bytes at `*old` (rdi). -/
theorem switch_frame_only (s : State) (a : W) (h1 : a ∉ frameAddrs s.rsp) (h2 : a ≠ s.rdi) :
    (exec switchCode s).mem a = s.mem a :=
  switch_mem_other s a h1 h2

/-- Round trip.  Coroutine A calls the switch in machine state `s` (`rdi = old = &A.stack_pointer`, return
    address at `[rsp]`).  Then anything may happen — any number of other coroutines, any code — as long as A's
    saved context (`savedAddrs s.rsp`: the return address and the eight words below it) and the word
    `*old` hold what the switch left there (`hF`, `hP`).  Eventually somebody calls the switch in state `s₂` with
    `new = &A.stack_pointer` and message `v`, from a stack whose outgoing frame and `*old` do not overlap A's
    saved context and `&A.stack_pointer` (`hd2`).  Then A continues at its return address with every callee-saved
    register, MXCSR, the user-visible flags and the stack pointer as it left them, and `rax = v`. -/
theorem switch_roundtrip (s s₂ : State) (v : W)
    (hmx : s.mxcsr &&& mxcsrReserved = 0#32) (hal : al s.rsp = true)
    (hd1 : s.rdi ∉ savedAddrs s.rsp)
    (hF : ∀ a ∈ savedAddrs s.rsp, s₂.mem a = (exec switchCode s).mem a)
    (hP : s₂.mem s.rdi = (exec switchCode s).mem s.rdi)
    (hnew : s₂.rsi = s.rdi) (hmsg : s₂.rdx = v)
    (hd2 : ∀ a ∈ s.rdi :: savedAddrs s.rsp, a ∉ frameAddrs s₂.rsp ∧ a ≠ s₂.rdi)
    (hok : s₂.ok = true) (hal2 : al s₂.rsp = true) (hal2d : al s₂.rdi = true) (hal2s : al s₂.rsi = true) :
    (∀ r ∈ calleeSaved, (exec switchCode s₂).get r = s.get r) ∧
    (exec switchCode s₂).mxcsr = s.mxcsr ∧
    userFlags (exec switchCode s₂) = userFlags s ∧
    (exec switchCode s₂).rsp = s.rsp + 8#64 ∧
    (exec switchCode s₂).rip = s.mem s.rsp ∧
    (exec switchCode s₂).rax = v ∧
    (exec switchCode s₂).ok = true := by
  obtain ⟨vsp, v15, v14, v13, v12, vbx, vbp, vmx, vfl, vret⟩ := switch_save s hd1
  have hn : s₂.mem s₂.rsi = s.rsp - 64#64 := by rw [hnew, hP, vsp]
  have hd : ∀ a ∈ s₂.rsi :: frameWords (s.rsp - 64#64), a ∉ frameAddrs s₂.rsp ∧ a ≠ s₂.rdi := by
    intro a ha
    rcases List.mem_cons.mp ha with h | h
    · exact hd2 a (by rw [h, hnew]; exact List.mem_cons_self ..)
    · exact hd2 a (List.mem_cons_of_mem _ ((savedAddrs_eq_frameWords s.rsp a).mpr h))
  generalize hs₁ : exec switchCode s = s₁ at *
  generalize hs₃ : exec switchCode s₂ = s₃
  obtain ⟨l15, l14, l13, l12, lbx, lbp, lmx, lfl, lip, lsp, lax, lok⟩ :=
    switch_into s₂ (s.rsp - 64#64) hn hd s₃ hs₃.symm
  obtain ⟨e8, e16, e24, e32, e40, e48, e56, e64, e72⟩ := frame_addr_eqs s.rsp
  have F := hF
  have f15 := F (s.rsp - 64#64) (by simp [savedAddrs, frameAddrs])
  have f14 := F (s.rsp - 56#64) (by simp [savedAddrs, frameAddrs])
  have f13 := F (s.rsp - 48#64) (by simp [savedAddrs, frameAddrs])
  have f12 := F (s.rsp - 40#64) (by simp [savedAddrs, frameAddrs])
  have fbx := F (s.rsp - 32#64) (by simp [savedAddrs, frameAddrs])
  have fbp := F (s.rsp - 24#64) (by simp [savedAddrs, frameAddrs])
  have fmx := F (s.rsp - 16#64) (by simp [savedAddrs, frameAddrs])
  have ffl := F (s.rsp - 8#64) (by simp [savedAddrs, frameAddrs])
  have frt := F s.rsp (by simp [savedAddrs])
  rw [e8] at l14; rw [e16] at l13; rw [e24] at l12; rw [e32] at lbx; rw [e40] at lbp
  rw [e48] at lmx lok; rw [e56] at lfl; rw [e64] at lip; rw [e72] at lsp
  refine ⟨?_, ?_, ?_, lsp, ?_, ?_, ?_⟩
  · intro r hr
    simp only [calleeSaved, List.mem_cons, List.not_mem_nil, or_false] at hr
    rcases hr with h | h | h | h | h | h <;> subst h <;> simp only [State.get]
    · rw [lbx, fbx, vbx]
    · rw [lbp, fbp, vbp]
    · rw [l12, f12, v12]
    · rw [l13, f13, v13]
    · rw [l14, f14, v14]
    · rw [l15, f15, v15]
  · rw [lmx, fmx, vmx]
  · rw [lfl, ffl, vfl, pushf_user]; rfl
  · rw [lip, frt, vret]
  · rw [lax, hmsg]
  · rw [lok hok hal2 hal2d hal2s, fmx, vmx, hmx, al_sub _ _ (by decide), hal]; rfl

end CimbaModel.Props.C03
