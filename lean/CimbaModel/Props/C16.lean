/-
  Property C16 — every sampler stays inside its support.  Theorems ONLY (plus non-vacuity `example`s).

  All statements are in EXACT arithmetic (`double` = Rat; every double IS a rational) about definitions REGENERATED on every run
  from src/cmb_random.c, include/cmb_random.h (tools/gen_rngdist.py, namespace `DistQ`) and from the ziggurat tables that the
  codegen programs of the current tree wrote into the build (`ZigTables`); `zig_exp_support` is about the hand model
  Rng/Zig.lean, which the check ties to the library by bit-exact execution over those tables.  `cmb_random_sfc64()` is an
  arbitrary stream `raw : Nat → Nat` of 64-bit words, so "for every u ∈ [0,1)" is "for every raw".

  Sentences of C16 and what carries them:
    "discrete choices are valid indices"        dice_range, loaded_dice_index, loaded_dice_is_inversion, alias_table_valid,
                                                alias_sample_index, alias_end_to_end, alias_secure_range, bernoulli_range
    "counts are within range"                   binomial_range (0 ≤ k ≤ n), geometric_ge_one (k ≥ 1, full strength)
    "bounded variates stay within their bounds" unit_uniform_range, uniform_range, triangular_range, std_beta_range,
                                                PERT_mod_range
    "positive variates are non-negative"        std_gamma_guard_support, std_gamma_guard_taken (the shape < 1 guard of
                                                cmb_random_std_gamma; the rejection loop behind it is an abstract input);
                                                zig_exp_support (+ exp_tables_ok, expTab_facts); exponential-based samplers
                                                are sums / positive multiples of it (not restated)
    "its samples follow the stated distribution" (slow paths only, as algorithms): nor_tail_is_marsaglia,
                                                nor_tail_result_is_marsaglia, nor_tail_constants, nor_tail_support (the tail
                                                branch of the normal ziggurat IS Marsaglia's tail algorithm with c·r = 1),
                                                zig_exp_tail_offset, exp_tail_step_accumulates (the exponential tail is offset + a
                                                fresh variate and the regenerated offset step ADDS the tail start: k·T after k hits)
    "the build-time generated ziggurat and alias tables"   exp_tables_ok, nor_tables_ok (decide by the kernel over the tables)
    "alias tables ... probability vectors"      alias_table_valid: for EVERY vector pa (admissible or not) the construction
                                                terminates (n units of fuel suffice) and yields a valid table
    "its samples follow the stated distribution"           NOT a theorem here (statistical test evidence in the check), except
                                                loaded_dice_is_inversion (the scan IS cdf inversion); the exactness of the alias
                                                table is checked per library-built table in exact rational arithmetic by the check
  IEEE rounding is outside these theorems (trusted base); the check compares the IEEE instantiation `DistF` of the very same
  regenerated text bit for bit with the library and reports where exact and IEEE results differ.
-/
import CimbaModel.Rng.DistSpec

namespace CimbaModel.Props.C16
open CimbaModel.Rng.Dist CimbaModel.Rng.Zig CimbaModel.Generated CimbaModel.Generated.DistQ CimbaModel.Generated.ZigTables

/-! ### cmb_random() -/

/-- `cmb_random() = (x >> 11) * 2^-53 ∈ [0,1)` for every 64-bit x, and it consumes exactly one draw -/
theorem unit_uniform_range (raw : Nat → Nat) (k : Nat) (h : Raw64 raw) :
    0 ≤ (cmb_random raw k).1 ∧ (cmb_random raw k).1 < 1 ∧ (cmb_random raw k).2 = k + 1 := by
  unfold cmb_random
  simp only [cnum_ofNat]
  have h1 : raw k >>> 11 < 9007199254740992 := by
    rw [Nat.shiftRight_eq_div_pow]; have := h k; omega
  refine ⟨by positivity, ?_, trivial⟩
  rw [div_lt_one (by norm_num)]
  exact_mod_cast h1

/-- 0 is attained (raw word below 2^11): the interval is closed at 0 -/
example : (cmb_random (fun _ => 2047) 0).1 = 0 := by
  unfold cmb_random; simp [cnum_ofNat]

/-- the hypotheses used below are satisfiable -/
example : Raw64 (fun _ => 18446744073709551615) := fun _ => by norm_num
example : SqrtLike (fun _ => 0) := ⟨fun _ _ => le_refl _, fun _ _ _ hz _ => hz⟩

/-! ### bounded continuous variates, as far as they are algebraic in u -/

theorem uniform_range (min max : Rat) (raw : Nat → Nat) (k : Nat) (h : Raw64 raw) (hm : min < max) :
    min ≤ (cmb_random_uniform min max raw k).1 ∧ (cmb_random_uniform min max raw k).1 < max := by
  obtain ⟨h0, h1, _⟩ := unit_uniform_range raw k h
  unfold cmb_random_uniform
  simp only []
  constructor <;> nlinarith

theorem triangular_range (min mode max : Rat) (fsqrt : Rat → Rat) (raw : Nat → Nat) (k : Nat) (h : Raw64 raw)
    (hs : SqrtLike fsqrt) (h1 : min ≤ mode) (h2 : mode ≤ max) (h3 : min < max) :
    min ≤ (cmb_random_triangular min mode max fsqrt raw k).1 ∧ (cmb_random_triangular min mode max fsqrt raw k).1 ≤ max := by
  obtain ⟨h0, hu1, _⟩ := unit_uniform_range raw k h
  unfold cmb_random_triangular
  simp only []
  generalize (cmb_random raw k).1 = u at h0 hu1
  have hw : 0 < max - min := by linarith
  split
  · have ha : 0 ≤ u * (max - min) * (mode - min) := by
      apply mul_nonneg (mul_nonneg h0 hw.le); linarith
    have hb : u * (max - min) * (mode - min) ≤ (max - min) * (max - min) := by
      have : u * (max - min) ≤ (max - min) := by nlinarith
      have h5 : mode - min ≤ max - min := by linarith
      have h6 : 0 ≤ mode - min := by linarith
      nlinarith
    have := hs.nonneg _ ha
    have := hs.le_of_le_sq _ _ ha hw.le hb
    constructor <;> linarith
  · have ha : 0 ≤ (1 - u) * (max - min) * (max - mode) := by
      apply mul_nonneg (mul_nonneg (by linarith) hw.le); linarith
    have hb : (1 - u) * (max - min) * (max - mode) ≤ (max - min) * (max - min) := by
      have : (1 - u) * (max - min) ≤ (max - min) := by nlinarith
      have h5 : max - mode ≤ max - min := by linarith
      have h6 : 0 ≤ max - mode := by linarith
      nlinarith
    have := hs.nonneg _ ha
    have := hs.le_of_le_sq _ _ ha hw.le hb
    constructor <;> linarith

/-- `cmb_random_std_beta` stays in [0,1] for ANY two non-negative gamma variates — also when both are 0.0 (tiny shape parameters:
    both underflow), where the ratio would be 0/0: it is then decided in log space from two fresh uniform variates,
    `1 / (1 + exp(ly − lx))`, which lies in (0,1] for every non-negative `exp`.  Draws: none on the ordinary path, exactly two on
    the underflow path.  (Against the source as it stood the statement needs `0 < x + y`; corpus/rngdist/beta-tiny-shapes.txt.) -/
theorem std_beta_range (a b : Rat) (flog fexp : Rat → Rat) (x y : Rat) (raw : Nat → Nat) (k : Nat)
    (hx : 0 ≤ x) (hy : 0 ≤ y) (hexp : ∀ z, 0 ≤ fexp z) :
    0 ≤ (cmb_random_std_beta a b flog fexp x y raw k).1 ∧ (cmb_random_std_beta a b flog fexp x y raw k).1 ≤ 1 ∧
    (cmb_random_std_beta a b flog fexp x y raw k).2 = (if 0 < x + y then k else k + 2) := by
  unfold cmb_random_std_beta
  simp only []
  by_cases hxy : x + y > 0
  · have hxy' : 0 < x + y := hxy
    simp only [hxy, if_true]
    refine ⟨div_nonneg hx hxy'.le, ?_, trivial⟩
    rw [div_le_one hxy']; linarith
  · have hxy' : ¬ 0 < x + y := hxy
    simp only [hxy, if_false]
    have h1 : 0 < 1 + fexp (flog (cmb_random raw (cmb_random raw k).2).1 / b - flog (cmb_random raw k).1 / a) := by
      have := hexp (flog (cmb_random raw (cmb_random raw k).2).1 / b - flog (cmb_random raw k).1 / a); linarith
    refine ⟨by positivity, ?_, ?_⟩
    · rw [div_le_one h1]
      have := hexp (flog (cmb_random raw (cmb_random raw k).2).1 / b - flog (cmb_random raw k).1 / a); linarith
    · simp [cmb_random]

theorem PERT_mod_range (min mode max lambda beta : Rat) (h1 : min < max) (hb0 : 0 ≤ beta) (hb1 : beta ≤ 1) :
    min ≤ cmb_random_PERT_mod min mode max lambda beta ∧ cmb_random_PERT_mod min mode max lambda beta ≤ max := by
  unfold cmb_random_PERT_mod
  simp only []
  constructor <;> nlinarith

/-! ### the small-shape guard of cmb_random_std_gamma (the leading statements of the function; the rejection loop is an abstract input) -/

/-- `cmb_random_std_gamma(shape)` stays in [0, ∞) through the guard `shape < 1`: it returns `g * pow(u, 1/shape)` with g the value of
    the recursive call for `shape + 1`, u the `cmb_random()` drawn AFTER that call (exactly one more raw word), for every `pow`
    that is non-negative on non-negative bases — given that the recursive call and the rejection loop return non-negative
    values.  Against the source as it stood there is no guard: the function (documented for shape > 0) went straight into
    Marsaglia-Tsang, which yields NaN for shape ≤ 1/3 (corpus/rngdist/std-gamma-shape-below-one.txt). -/
theorem std_gamma_guard_support (shape : Rat) (fpow : Rat → Rat → Rat) (g rest : Rat) (n : Nat) (raw : Nat → Nat) (k : Nat)
    (h : Raw64 raw) (hg : 0 ≤ g) (hrest : 0 ≤ rest) (hpow : ∀ b e, 0 ≤ b → 0 ≤ fpow b e) :
    0 ≤ (cmb_random_std_gamma shape fpow g rest n raw k).1 ∧
    (cmb_random_std_gamma shape fpow g rest n raw k).2 = (if shape < 1 then k + n + 1 else k) := by
  unfold cmb_random_std_gamma
  simp only []
  split
  · obtain ⟨h0, _, h2⟩ := unit_uniform_range raw (k + n) h
    exact ⟨mul_nonneg hg (hpow _ _ h0), h2⟩
  · exact ⟨hrest, rfl⟩

/-- below 1 the value does not depend on the rejection loop of THIS call at all (it is not entered) -/
theorem std_gamma_guard_taken (shape : Rat) (fpow : Rat → Rat → Rat) (g rest rest' : Rat) (n : Nat) (raw : Nat → Nat) (k : Nat)
    (hs : shape < 1) :
    cmb_random_std_gamma shape fpow g rest n raw k = cmb_random_std_gamma shape fpow g rest' n raw k := by
  unfold cmb_random_std_gamma
  simp only [hs, if_true]

/-! ### discrete samplers -/

/-- `cmb_random_dice(a, b) ∈ [a, b]` (exact arithmetic; |a|, |b| ≤ 2^61 so that `b - a + 1` does not wrap) -/
theorem dice_range (a b : Int) (raw : Nat → Nat) (k : Nat) (h : Raw64 raw) (hab : a < b)
    (ha : -2305843009213693952 ≤ a) (hb : b ≤ 2305843009213693952) :
    a ≤ (cmb_random_dice a b raw k).1 ∧ (cmb_random_dice a b raw k).1 ≤ b := by
  obtain ⟨h0, h1, _⟩ := unit_uniform_range raw k h
  unfold cmb_random_dice
  simp only [cnum_ofInt, cnum_floor, cnum_trunc_int]
  rw [i64_of_range (x := b - a) (by omega) (by omega), i64_of_range (x := b - a + 1) (by omega) (by omega)]
  generalize (cmb_random raw k).1 = u at h0 h1
  -- (the offset may be added before or after taking the floor: both shapes of the source are covered)
  try simp only [Int.floor_intCast_add]
  have hn : (0 : Rat) < ((b - a + 1 : Int) : Rat) := by exact_mod_cast (by omega : (0 : Int) < b - a + 1)
  have hlo : 0 ≤ ⌊((b - a + 1 : Int) : Rat) * u⌋ := by
    rw [Int.le_floor]; simp only [Int.cast_zero]; positivity
  have hhi : ⌊((b - a + 1 : Int) : Rat) * u⌋ < b - a + 1 := by
    rw [Int.floor_lt]; nlinarith
  generalize ⌊((b - a + 1 : Int) : Rat) * u⌋ = f at hlo hhi
  unfold i64
  omega

theorem bernoulli_range (p : Rat) (raw : Nat → Nat) (k : Nat) :
    (cmb_random_bernoulli p raw k).1 ≤ 1 ∧ (cmb_random_bernoulli p raw k).2 = k + 1 := by
  unfold cmb_random_bernoulli
  simp only []
  refine ⟨by split <;> omega, ?_⟩
  simp [cmb_random]

/-- `0 ≤ k ≤ n` (k is a Nat), and exactly n draws are consumed -/
theorem binomial_range (n : Nat) (p : Rat) (raw : Nat → Nat) (k : Nat) (hn : n < 4294967296) :
    (cmb_random_binomial n p raw k).1 ≤ n ∧ (cmb_random_binomial n p raw k).2 = k + n := by
  unfold cmb_random_binomial
  simp only []
  generalize hr : forLoop n _ 0 _ = r
  have key : r.1 = n ∧ (fun j (t : Nat × Nat) => t.1 ≤ j ∧ t.2 = k + j) n r.2 := by
    rw [← hr]
    refine forLoop_nobreak n _ (fun j (t : Nat × Nat) => t.1 ≤ j ∧ t.2 = k + j) 0 _ (Nat.zero_le _) ⟨Nat.le_refl _, rfl⟩ ?_ ?_
    · intro j t; rfl
    · intro j t _ hj ⟨h1, h2⟩
      obtain ⟨hb1, hb2⟩ := bernoulli_range p raw t.2
      simp only []
      refine ⟨?_, by omega⟩
      rw [u32_of_lt (by omega)]; omega
  exact ⟨key.2.1, key.2.2⟩

/-- `cmb_random_loaded_dice(n, pa) < n` for EVERY probability vector the code accepts (`sums_to_one`: |Σp − 1| ≤ the
    regenerated `sum_tolerance`; the hypothesis is not even needed once the scan clamps) and every u.
    Against the source as it stood (no clamp after the scan) this does not hold: Σp < 1 within the tolerance and u ≥ Σp
    fall off the end (DESIGN §5 row 17; corpus/rngdist/loaded-dice-index-n.txt). -/
theorem loaded_dice_index (n : Nat) (pa : Nat → Rat) (raw : Nat → Nat) (k : Nat)
    (hn : 0 < n) (hn32 : n < 4294967296) (_hadm : sums_to_one n pa = true) :
    (cmb_random_loaded_dice n pa raw k).1 < n := by
  unfold cmb_random_loaded_dice
  simp only []
  generalize hr : forLoop n _ 0 _ = r
  have hle : r.1 ≤ n := by rw [← hr]; exact forLoop_fst_le n _ 0 _ (Nat.zero_le _)
  split
  · rw [u32_pred hn hn32]; omega
  · omega

/-- The returned index is the one the inversion method prescribes: with `psum pa j = pa 0 + … + pa (j-1)` and u the uniform
    variate, every earlier prefix sum is ≤ u and u < psum (r+1) — or the scan ran off the end (u ≥ the whole sum) and the last
    index is returned.  (`x <= q` instead of `x < q` in the scan, which could return an entry of probability 0 when u = 0,
    does not satisfy this.) -/
theorem loaded_dice_is_inversion (n : Nat) (pa : Nat → Rat) (raw : Nat → Nat) (k : Nat)
    (hn : 0 < n) (hn32 : n < 4294967296) :
    (∀ j, j < (cmb_random_loaded_dice n pa raw k).1 → psum pa (j + 1) ≤ (cmb_random raw k).1) ∧
    ((cmb_random raw k).1 < psum pa ((cmb_random_loaded_dice n pa raw k).1 + 1) ∨
      ((cmb_random_loaded_dice n pa raw k).1 = n - 1 ∧ psum pa n ≤ (cmb_random raw k).1)) := by
  unfold cmb_random_loaded_dice
  simp only []
  generalize (cmb_random raw k).1 = u
  generalize hr : forLoop n _ 0 _ = r
  have key : (r.1 = n ∧ ∀ j, j < n → psum pa (j + 1) ≤ u) ∨
      (r.1 < n ∧ (∀ j, j < r.1 → psum pa (j + 1) ≤ u) ∧ u < psum pa (r.1 + 1)) := by
    rw [← hr]
    refine forLoop_cases n _ (fun j (q : Rat) => q = psum pa j ∧ ∀ j', j' < j → psum pa (j' + 1) ≤ u) 0 _ (Nat.zero_le _)
      ⟨rfl, by intro j' h; omega⟩ ?_
      (fun r => (r.1 = n ∧ ∀ j, j < n → psum pa (j + 1) ≤ u) ∨
        (r.1 < n ∧ (∀ j, j < r.1 → psum pa (j + 1) ≤ u) ∧ u < psum pa (r.1 + 1))) ?_ ?_
    · intro j t _ hj ⟨hq, hall⟩ hb
      by_cases hlt : u < t + pa j
      · simp [hlt] at hb
      · simp only [hlt, if_false]
        refine ⟨by rw [hq]; rfl, ?_⟩
        intro j' hj'
        by_cases e : j' = j
        · subst e; show psum pa j' + pa j' ≤ u; rw [← hq]; linarith
        · exact hall j' (by omega)
    · intro t ⟨_, hall⟩; exact Or.inl ⟨rfl, hall⟩
    · intro j t hj ⟨hq, hall⟩ hb
      by_cases hlt : u < t + pa j
      · refine Or.inr ⟨hj, hall, ?_⟩
        show u < psum pa j + pa j
        rw [← hq]; exact hlt
      · simp [hlt] at hb
  rcases key with ⟨h1, h2⟩ | ⟨h1, h2, h3⟩
  · have e : u32 (n + 4294967296 - 1) = n - 1 := u32_pred hn hn32
    simp only [h1, ge_iff_le, le_refl, if_true, e]
    refine ⟨fun j hj => h2 j (by omega), Or.inr ⟨trivial, ?_⟩⟩
    have := h2 (n - 1) (by omega)
    have e2 : n - 1 + 1 = n := by omega
    rw [e2] at this; exact this
  · have : ¬ r.1 ≥ n := by omega
    simp only [this, if_false]
    exact ⟨h2, Or.inl h3⟩

/-- `cmb_random_geometric(p) ≥ 1` — at full strength: every p (in particular p = 1), every exponential variate (in
    particular 0.0), every cache content.  Against the source as it stood the statement fails at p = 1
    (`ceil(e / -log 0) = 0`; corpus/rngdist/geometric-p1.txt). -/
theorem geometric_ge_one (p : Rat) (flog : Rat → Rat) (e prev denom : Rat) :
    1 ≤ cmb_random_geometric p flog e prev denom := by
  unfold cmb_random_geometric
  simp only []
  repeat' split
  all_goals omega

/-- for p < 1 the value is the documented one: ⌈e / −log(1−p)⌉ (when that is representable) -/
theorem geometric_value (p : Rat) (flog : Rat → Rat) (e prev denom : Rat) (hp : prev ≠ p)
    (hpos : 0 < e / -(flog (1 - p))) (hrep : e / -(flog (1 - p)) ≤ 4294967295) :
    (cmb_random_geometric p flog e prev denom : Int) = ⌈e / -(flog (1 - p))⌉ := by
  unfold cmb_random_geometric
  have hne : (p != prev) = true := by simp [bne_iff_ne, Ne.symm hp]
  simp only [hne, if_true, cnum_ceil, cnum_trunc_int]
  have h1 : 1 ≤ ⌈e / -(flog (1 - p))⌉ := by
    have : 0 < ⌈e / -(flog (1 - p))⌉ := Int.ceil_pos.mpr hpos
    omega
  have h2 : ⌈e / -(flog (1 - p))⌉ ≤ 4294967295 := by
    rw [Int.ceil_le]; exact_mod_cast hrep
  rw [u32_of_lt (by omega)]
  split
  · omega
  · omega

/-! ### alias tables -/

/-- every threshold `alias_secure` produces is a 64-bit word, i.e. encodes a probability in [0, 1] -/
theorem alias_secure_range (p : Rat) : alias_secure p < 18446744073709551616 := by
  unfold alias_secure
  simp only []
  repeat' split
  all_goals first | omega | exact u64_lt _

/-- For EVERY n in (0, 2^32) and EVERY vector pa the Vose construction terminates (n units of fuel suffice for each of its
    three `while` loops) and returns a valid table: n entries, every alias index < n, every threshold in range. -/
theorem alias_table_valid (n : Nat) (pa : Nat → Rat) (fuel : Nat) (hn : 0 < n) (hn32 : n < 4294967296) (hf : n ≤ fuel) :
    ∃ t, cmb_random_alias_create n pa fuel = some t ∧ AliasValid n t := by
  unfold cmb_random_alias_create AliasValid
  simp only []
  -- the classification loop
  generalize hr : forLoop n _ 0 _ = r
  have h1 : r.1 = n ∧ (fun j (t : (Nat → Rat) × (Nat → Nat) × Nat × (Nat → Nat) × Nat) =>
      t.2.2.1 + t.2.2.2.2 = j ∧ (∀ i, i < t.2.2.1 → t.2.1 i < n) ∧ (∀ i, i < t.2.2.2.2 → t.2.2.2.1 i < n)) n r.2 := by
    rw [← hr]
    refine forLoop_nobreak n _ (fun j (t : (Nat → Rat) × (Nat → Nat) × Nat × (Nat → Nat) × Nat) =>
      t.2.2.1 + t.2.2.2.2 = j ∧ (∀ i, i < t.2.2.1 → t.2.1 i < n) ∧ (∀ i, i < t.2.2.2.2 → t.2.2.2.1 i < n)) 0 _ (Nat.zero_le _) ?_ ?_ ?_
    · exact ⟨rfl, by intro i hi; simp at hi, by intro i hi; simp at hi⟩
    · intro j t; rfl
    · intro j t _ hj ⟨ha, hb, hc⟩
      simp only []
      split
      · simp only []
        rw [u32_of_lt (by omega)]
        refine ⟨by omega, ?_, hc⟩
        intro i hi
        by_cases hie : i = t.2.2.1
        · subst hie; simp [upd]; omega
        · rw [upd_other _ _ _ _ hie]; exact hb i (by omega)
      · simp only []
        rw [u32_of_lt (by omega)]
        refine ⟨by omega, hb, ?_⟩
        intro i hi
        by_cases hie : i = t.2.2.2.2
        · subst hie; simp [upd]; omega
        · rw [upd_other _ _ _ _ hie]; exact hc i (by omega)
  obtain ⟨_, hsum, hsm, hlg⟩ := h1
  -- the pairing loop
  generalize hw1 : whileFuel fuel _ _ _ = w1
  have h2 : ∃ s', w1 = some s' ∧ (fun (st : Nat × Nat × cmb_random_alias × (Nat → Rat) × (Nat → Nat) × (Nat → Nat)) =>
      StackInv n st.1 st.2.1 st.2.2.1 st.2.2.2.2.1 st.2.2.2.2.2) s' := by
    rw [← hw1]
    refine whileFuel_inv' _ (fun st => st.1 + st.2.1) _ _ ?_ fuel _ ?_ ?_
    · intro st hP hc
      obtain ⟨hle, hs, hl, hal, hup, hnn⟩ := hP
      simp only [decide_eq_true_eq] at hc
      obtain ⟨hc1, hc2⟩ := hc
      have e1 : u32 (st.1 + 4294967296 - 1) = st.1 - 1 := u32_pred hc1 (by omega)
      have e2 : u32 (st.2.1 + 4294967296 - 1) = st.2.1 - 1 := u32_pred hc2 (by omega)
      have hl' : st.2.2.2.2.1 (st.1 - 1) < n := hs _ (by omega)
      have hg' : st.2.2.2.2.2 (st.2.1 - 1) < n := hl _ (by omega)
      simp only [e1, e2]
      have halias : ∀ i, upd st.2.2.1.alias (st.2.2.2.2.1 (st.1 - 1)) (st.2.2.2.2.2 (st.2.1 - 1)) i < n := by
        intro i; unfold upd; split
        · exact hg'
        · exact hal i
      have huprob : ∀ i, upd st.2.2.1.uprob (st.2.2.2.2.1 (st.1 - 1)) (alias_secure (st.2.2.2.1 (st.2.2.2.2.1 (st.1 - 1)))) i < 18446744073709551616 := by
        intro i; unfold upd; split
        · exact alias_secure_range _
        · exact hup i
      split
      · simp only []
        rw [u32_of_lt (by omega)]
        refine ⟨⟨by omega, ?_, ?_, halias, huprob, hnn⟩, by omega⟩
        · intro j hj
          by_cases hje : j = st.1 - 1
          · subst hje; simp [upd]; exact hg'
          · rw [upd_other _ _ _ _ hje]; exact hs j (by omega)
        · intro j hj; exact hl j (by omega)
      · simp only []
        rw [u32_of_lt (by omega)]
        refine ⟨⟨by omega, ?_, ?_, halias, huprob, hnn⟩, by omega⟩
        · intro j hj; exact hs j (by omega)
        · intro j hj
          by_cases hje : j = st.2.1 - 1
          · subst hje; simp [upd]; exact hg'
          · rw [upd_other _ _ _ _ hje]; exact hl j (by omega)
    · exact ⟨by simp only []; omega, hsm, hlg, by intro i; exact hn, by intro i; simp, rfl⟩
    · simp only []; omega
  obtain ⟨s1, hs1, hP1⟩ := h2
  subst hs1
  obtain ⟨hle, hs, hl, hal, hup, hnn⟩ := hP1
  simp only []
  -- the two flush loops
  generalize hw2 : whileFuel fuel _ _ _ = w2
  have h3 : ∃ s', w2 = some s' ∧ (fun (st : Nat × cmb_random_alias) =>
      st.1 ≤ n ∧ (∀ i, st.2.alias i < n) ∧ (∀ i, st.2.uprob i < 18446744073709551616) ∧ st.2.n = n) s' := by
    rw [← hw2]
    refine whileFuel_inv' _ (fun st => st.1) _ _ ?_ fuel _ ?_ ?_
    · intro st ⟨h1, h2, h3, h4⟩ hc
      simp only [decide_eq_true_eq] at hc
      have e1 : u32 (st.1 + 4294967296 - 1) = st.1 - 1 := u32_pred hc (by omega)
      simp only [e1]
      refine ⟨⟨by omega, h2, ?_, h4⟩, by omega⟩
      intro i; unfold upd; split
      · omega
      · exact h3 i
    · exact ⟨by simp only []; omega, hal, hup, hnn⟩
    · simp only []; omega
  obtain ⟨s2, hs2, hP2⟩ := h3
  subst hs2
  simp only []
  generalize hw3 : whileFuel fuel _ _ _ = w3
  have h4 : ∃ s', w3 = some s' ∧ (fun (st : Nat × cmb_random_alias) =>
      st.1 ≤ n ∧ (∀ i, st.2.alias i < n) ∧ (∀ i, st.2.uprob i < 18446744073709551616) ∧ st.2.n = n) s' := by
    rw [← hw3]
    refine whileFuel_inv' _ (fun st => st.1) _ _ ?_ fuel _ ?_ ?_
    · intro st ⟨h1, h2, h3, h4⟩ hc
      simp only [decide_eq_true_eq] at hc
      have e1 : u32 (st.1 + 4294967296 - 1) = st.1 - 1 := u32_pred hc (by omega)
      simp only [e1]
      refine ⟨⟨by omega, h2, ?_, h4⟩, by omega⟩
      intro i; unfold upd; split
      · omega
      · exact h3 i
    · exact ⟨by simp only []; omega, hP2.2.1, hP2.2.2.1, hP2.2.2.2⟩
    · simp only []; omega
  obtain ⟨s3, hs3, hP3⟩ := h4
  subst hs3
  exact ⟨s3.2, rfl, hP3.2.2.2, hP3.2.1, hP3.2.2.1⟩

/-- sampling from a valid table returns an index below n, for every pair of raw words -/
theorem alias_sample_index (n : Nat) (t : cmb_random_alias) (raw : Nat → Nat) (k : Nat) (h : Raw64 raw)
    (hn : 0 < n) (hn32 : n < 4294967296) (hv : AliasValid n t) :
    (cmb_random_alias_sample t raw k).1 < n := by
  obtain ⟨htn, hal, _⟩ := hv
  obtain ⟨h0, h1, _⟩ := unit_uniform_range raw k h
  unfold cmb_random_alias_sample
  simp only [cnum_ofNat, cnum_floor, cnum_trunc_int, htn]
  generalize (cmb_random raw k).1 = u at h0 h1
  have hnq : (0 : Rat) < (n : Rat) := by exact_mod_cast hn
  have hf0 : 0 ≤ ⌊(n : Rat) * u⌋ := by rw [Int.le_floor]; simp; positivity
  have hf1 : ⌊(n : Rat) * u⌋ < (n : Int) := by rw [Int.floor_lt]; push_cast; nlinarith
  have hidx : u32 (Int.toNat ⌊(n : Rat) * u⌋) < n := by
    rw [u32_of_lt (by omega)]; omega
  split
  · exact hal _
  · exact hidx

/-- create + sample, end to end: whatever vector is passed, every sample is a valid index -/
theorem alias_end_to_end (n : Nat) (pa : Nat → Rat) (raw : Nat → Nat) (k : Nat) (h : Raw64 raw)
    (hn : 0 < n) (hn32 : n < 4294967296) :
    ∃ t, cmb_random_alias_create n pa n = some t ∧ (cmb_random_alias_sample t raw k).1 < n := by
  obtain ⟨t, ht, hv⟩ := alias_table_valid n pa n hn hn32 (Nat.le_refl _)
  exact ⟨t, ht, alias_sample_index n t raw k h hn hn32 hv⟩

/-! ### the build-time generated ziggurat tables (decided by the kernel over the regenerated lists) -/

/-- exponential tables: 256 entries each; x strictly decreasing and y strictly increasing up to the top layer
    `zig_max + 1`; x non-increasing over the whole table (padding zeros); alias entries ≤ `zig_max + 1`; every index above
    `zig_max + 1` has acceptance threshold 0 (it is always replaced by its alias), so the effective overhang index is at most
    `zig_max + 1`; thresholds and concavities are 64-bit words; the tail starts at x[0] (2^64 scaling, within 2^-40). -/
theorem exp_tables_ok :
    (cmi_random_exp_zig_pdf_x_num.length = 256 ∧ cmi_random_exp_zig_pdf_y_num.length = 256 ∧
      exp_zig_u_concavity.length = 256 ∧ exp_zig_alias.length = 256 ∧ exp_zig_u_prob.length = 256) ∧
    cmi_random_exp_zig_max + 1 < 256 ∧
    strictDecUpTo cmi_random_exp_zig_pdf_x_num (cmi_random_exp_zig_max + 1) = true ∧
    antitoneAll cmi_random_exp_zig_pdf_x_num = true ∧
    strictIncUpTo cmi_random_exp_zig_pdf_y_num (cmi_random_exp_zig_max + 1) = true ∧
    exp_zig_alias.all (fun a => decide (a ≤ cmi_random_exp_zig_max + 1)) = true ∧
    (List.range 256).all (fun j => decide (j ≤ cmi_random_exp_zig_max + 1 ∨ exp_zig_u_prob.getD j 0 = 0)) = true ∧
    exp_zig_u_prob.all (fun a => decide (a < 18446744073709551616)) = true ∧
    exp_zig_u_concavity.all (fun a => decide (a < 18446744073709551616)) = true ∧
    0 < exp_zig_x_tail_start_num ∧
    (exp_zig_x_tail_start_num * 2 ^ cmi_random_exp_zig_pdf_x_exp -
      (cmi_random_exp_zig_pdf_x_num.getD 0 0 : Int) * 2 ^ 64 * 2 ^ exp_zig_x_tail_start_exp).natAbs * 2 ^ 40
      ≤ 2 ^ cmi_random_exp_zig_pdf_x_exp * 2 ^ exp_zig_x_tail_start_exp := by
  refine ⟨by decide +kernel, by decide +kernel, by decide +kernel, by decide +kernel, by decide +kernel, by decide +kernel,
    by decide +kernel, by decide +kernel, by decide +kernel, by decide +kernel, by decide +kernel⟩

/-- normal tables: 256 entries each; x strictly decreasing and y strictly increasing up to `zig_max + 1`; alias entries
    ≤ `zig_max + 1`; indices above it are always aliased (threshold 0); thresholds, concavities and convexities are
    non-negative 63-bit values; the inflection layer lies inside the ziggurat; the tail starts at x[0] (2^63 scaling, within
    2^-40) and `inv_tail_start * x_tail_start = 1` within 2^-40. -/
theorem nor_tables_ok :
    (cmi_random_nor_zig_pdf_x_num.length = 256 ∧ cmi_random_nor_zig_pdf_y_num.length = 256 ∧ nor_zig_i_concavity.length = 256 ∧
      nor_zig_i_convexity.length = 256 ∧ nor_zig_alias.length = 256 ∧ nor_zig_i_prob.length = 256) ∧
    cmi_random_nor_zig_max + 1 < 256 ∧ 0 < nor_zig_inflection ∧ nor_zig_inflection ≤ cmi_random_nor_zig_max ∧
    strictDecUpTo cmi_random_nor_zig_pdf_x_num (cmi_random_nor_zig_max + 1) = true ∧
    antitoneAll cmi_random_nor_zig_pdf_x_num = true ∧
    strictIncUpTo cmi_random_nor_zig_pdf_y_num (cmi_random_nor_zig_max + 1) = true ∧
    nor_zig_alias.all (fun a => decide (a ≤ cmi_random_nor_zig_max + 1)) = true ∧
    (List.range 256).all (fun j => decide (j ≤ cmi_random_nor_zig_max + 1 ∨ nor_zig_i_prob.getD j 0 = 0)) = true ∧
    nor_zig_i_prob.all (fun a => decide (0 ≤ a ∧ a < 9223372036854775808)) = true ∧
    nor_zig_i_concavity.all (fun a => decide (0 ≤ a ∧ a < 9223372036854775808)) = true ∧
    nor_zig_i_convexity.all (fun a => decide (0 ≤ a ∧ a < 9223372036854775808)) = true ∧
    0 < nor_zig_x_tail_start_num ∧
    (nor_zig_x_tail_start_num * 2 ^ cmi_random_nor_zig_pdf_x_exp -
      (cmi_random_nor_zig_pdf_x_num.getD 0 0 : Int) * 2 ^ 63 * 2 ^ nor_zig_x_tail_start_exp).natAbs * 2 ^ 40
      ≤ 2 ^ cmi_random_nor_zig_pdf_x_exp * 2 ^ nor_zig_x_tail_start_exp ∧
    (nor_zig_x_tail_start_num * nor_zig_inv_tail_start_num -
      (2 : Int) ^ nor_zig_x_tail_start_exp * 2 ^ nor_zig_inv_tail_start_exp).natAbs * 2 ^ 40
      ≤ 2 ^ nor_zig_x_tail_start_exp * 2 ^ nor_zig_inv_tail_start_exp := by
  refine ⟨by decide +kernel, by decide +kernel, by decide +kernel, by decide +kernel, by decide +kernel, by decide +kernel,
    by decide +kernel, by decide +kernel, by decide +kernel, by decide +kernel, by decide +kernel, by decide +kernel,
    by decide +kernel, by decide +kernel, by decide +kernel⟩

/-- the regenerated exponential tables satisfy what the support argument needs -/
theorem expTab_facts : ExpFacts (expTab Rat) := by
  have hlen := exp_tables_ok.1.1
  have hanti := exp_tables_ok.2.2.2.1
  refine ⟨?_, ?_, ?_⟩
  · intro j; unfold expTab dyadic; simp only [cnum_ofNat]; positivity
  · intro j
    unfold expTab dyadic
    simp only [cnum_ofNat]
    have hle : cmi_random_exp_zig_pdf_x_num.getD j 0 ≤ cmi_random_exp_zig_pdf_x_num.getD (j - 1) 0 := by
      by_cases hj : j = 0
      · subst hj; exact Nat.le_refl _
      · by_cases hj2 : j - 1 < 256
        · have := all_range hanti (j - 1) (by rw [hlen]; exact hj2)
          simp only [decide_eq_true_eq] at this
          have e : j - 1 + 1 = j := by omega
          rw [e] at this; exact this
        · have : cmi_random_exp_zig_pdf_x_num.getD j 0 = 0 := by
            rw [List.getD_eq_getElem?_getD, List.getElem?_eq_none (by rw [hlen]; omega)]; rfl
          rw [this]; exact Nat.zero_le _
    have hpos : (0 : Rat) < ((2 ^ cmi_random_exp_zig_pdf_x_exp : Nat) : Rat) := by positivity
    exact div_le_div_of_nonneg_right (by exact_mod_cast hle) hpos.le
  · unfold expTab
    simp only [cnum_ofNat, cnum_ofInt]
    have := exp_tables_ok.2.2.2.2.2.2.2.2.2.1
    have h1 : (0 : Rat) ≤ (exp_zig_x_tail_start_num : Rat) := by exact_mod_cast this.le
    positivity

/-- Every return path of the exponential ziggurat (hot path, overhang with and without the exact pdf test, tail iteration,
    "lucky" re-entry) over the regenerated tables yields x ≥ 0 — for every stream of raw words, every `exp`, whenever it
    returns at all (`some`). -/
theorem zig_exp_support (fexp : Rat → Rat) (raw : Nat → Nat) (fuel k : Nat) (r : Rat × Nat)
    (hr : stdExp (expTab Rat) fexp 0 raw fuel k = some r) : 0 ≤ r.1 := by
  unfold stdExp at hr
  simp only [] at hr
  split at hr
  · cases hr
    simp only [cnum_ofNat]
    exact mul_nonneg (expTab_facts.x_nonneg _) (by positivity)
  · exact notHot_nonneg _ expTab_facts fexp raw _ _ _ _ _ (le_refl _) hr

/-- The tail of the exponential ziggurat is "offset + Exp(1)" (memoryless): a value returned by the slow path after the tail offset
    has reached `xoff` is at least `xoff` — in particular each pass through the tail layer moves the result beyond one more
    `exp_zig_x_tail_start`.  (Hand model Rng/Zig.lean, tied bit for bit to the library: dropping the offset on any return path
    breaks that tie — seeded change C16-a — or this theorem.) -/
theorem zig_exp_tail_offset (fexp : Rat → Rat) (raw : Nat → Nat) (fuel k ucx : Nat) (xoff : Rat) (r : Rat × Nat) (hx : 0 ≤ xoff)
    (hr : notHot (expTab Rat) fexp raw fuel k ucx xoff = some r) : xoff ≤ r.1 :=
  overhang_ge_zero_offset _ expTab_facts fexp raw _ _ _ _ _ hx hr

/-- The tail step of the exponential ziggurat ADDS the tail start to the offset (regenerated statement of cmi_random_exp_not_hot):
    the offset starts at 0 and is k·T after k passes through the tail layer, T = `exp_zig_x_tail_start` = the value in the
    generated include file = what the hand model Rng/Zig.lean adds.  (`x_offset = T` instead of `+=` — seeded change C16-h, which
    caps the unit exponential at 2T — does not satisfy this.) -/
theorem exp_tail_step_accumulates (xoff : Rat) (k : Nat) :
    cmi_random_exp_not_hot_tail_step xoff = xoff + exp_zig_x_tail_start ∧
    cmi_random_exp_not_hot_tail_step_init = 0 ∧
    Nat.iterate cmi_random_exp_not_hot_tail_step k cmi_random_exp_not_hot_tail_step_init = (k : Rat) * exp_zig_x_tail_start ∧
    exp_zig_x_tail_start = (expTab Rat).tail := by
  have hstep : ∀ x, cmi_random_exp_not_hot_tail_step x = x + exp_zig_x_tail_start := by
    intro x; unfold cmi_random_exp_not_hot_tail_step; rfl
  refine ⟨hstep xoff, rfl, ?_, ?_⟩
  · induction k with
    | zero => simp [cmi_random_exp_not_hot_tail_step_init]
    | succ n ih =>
      rw [Function.iterate_succ_apply', ih, hstep]; push_cast; ring
  · unfold expTab exp_zig_x_tail_start
    simp only [cnum_ofNat, cnum_ofInt, exp_zig_x_tail_start_num, exp_zig_x_tail_start_exp]
    norm_num

/-! ### the tail branch of the normal ziggurat IS Marsaglia's tail algorithm (regenerated do-while loop of cmi_random_nor_not_hot) -/

/-- one iteration of the regenerated loop = one iteration of Marsaglia's algorithm with the proposal scale
    `c = nor_zig_inv_tail_start`: candidate `c * e1`, go round again iff `2 * e2 ≤ candidate²`.  (Any other constant in the
    proposal — seeded change C16-c used `nor_zig_x_tail_start` — or another acceptance test does not satisfy this.) -/
theorem nor_tail_is_marsaglia (e1 e2 : Rat) :
    cmi_random_nor_not_hot_tail_iter e1 e2 = marsagliaIter nor_zig_inv_tail_start e1 e2 := by
  unfold cmi_random_nor_not_hot_tail_iter marsagliaIter
  rfl

/-- the value returned after the loop is `sign * (candidate + r)` with `r = nor_zig_x_tail_start` -/
theorem nor_tail_result_is_marsaglia (sign x : Rat) :
    cmi_random_nor_not_hot_tail_result sign x = marsagliaResult nor_zig_x_tail_start sign x := by
  unfold cmi_random_nor_not_hot_tail_result marsagliaResult
  rfl

/-- the two generated constants are what the algorithm needs: `r` is the tail start of the table (the literal in the source is the
    value in the generated include file, and it is x[0] scaled by 2^63 to within 2^-40: `nor_tables_ok`), and the proposal scale
    is its reciprocal up to the rounding of the 15-digit text: |c * r − 1| ≤ 2^-40 -/
theorem nor_tail_constants :
    nor_zig_x_tail_start = (nor_zig_x_tail_start_num : Rat) / (2 : Rat) ^ nor_zig_x_tail_start_exp ∧
    nor_zig_inv_tail_start = (nor_zig_inv_tail_start_num : Rat) / (2 : Rat) ^ nor_zig_inv_tail_start_exp ∧
    0 < nor_zig_x_tail_start ∧ 0 < nor_zig_inv_tail_start ∧
    |nor_zig_inv_tail_start * nor_zig_x_tail_start - 1| ≤ 1 / (2 : Rat) ^ 40 := by
  unfold nor_zig_x_tail_start nor_zig_inv_tail_start nor_zig_x_tail_start_num nor_zig_x_tail_start_exp
    nor_zig_inv_tail_start_num nor_zig_inv_tail_start_exp
  refine ⟨by norm_num, by norm_num, by norm_num, by norm_num, ?_⟩
  rw [abs_le]
  constructor <;> norm_num

/-- accepted tail variates lie beyond the tail start on the side of their sign, and a rejected candidate is never returned:
    for Exp(1) variates e1 ≥ 0 the result for sign = ±1 has magnitude ≥ r -/
theorem nor_tail_support (e1 e2 : Rat) (he : 0 ≤ e1) :
    nor_zig_x_tail_start ≤ cmi_random_nor_not_hot_tail_result 1 (cmi_random_nor_not_hot_tail_iter e1 e2).1 ∧
    cmi_random_nor_not_hot_tail_result (-1) (cmi_random_nor_not_hot_tail_iter e1 e2).1 ≤ -nor_zig_x_tail_start := by
  rw [nor_tail_is_marsaglia, nor_tail_result_is_marsaglia, nor_tail_result_is_marsaglia]
  have hc := nor_tail_constants.2.2.2.1
  have : 0 ≤ nor_zig_inv_tail_start * e1 := mul_nonneg hc.le he
  unfold marsagliaIter marsagliaResult
  constructor <;> simp only [] <;> linarith

/-- the alias step of the exponential ziggurat never leaves the table: the overhang index is at most `zig_max + 1` -/
theorem zig_exp_alias_index (r0 r1 : Nat) : aliasStep (expTab Rat) r0 r1 ≤ cmi_random_exp_zig_max + 1 := by
  have hal := exp_tables_ok.2.2.2.2.2.1
  have heff := exp_tables_ok.2.2.2.2.2.2.1
  have hlen := exp_tables_ok.1.2.2.2.1
  unfold aliasStep expTab
  simp only []
  have hj : r0 % 256 < 256 := Nat.mod_lt _ (by norm_num)
  split
  · rw [List.all_eq_true] at hal
    have := hal (exp_zig_alias.getD (r0 % 256) 0) (by
      rw [List.getD_eq_getElem?_getD, List.getElem?_eq_getElem (by rw [hlen]; exact hj)]
      exact List.getElem_mem _)
    simpa using this
  · rename_i hlt
    have := all_range heff (r0 % 256) hj
    simp only [decide_eq_true_eq] at this
    rcases this with h | h
    · exact h
    · rw [h] at hlt; omega

end CimbaModel.Props.C16
