/-
  C06 — waiters are served by priority, then by waiting time; priority changes reorder.
  Property theorems only.
-/
import CimbaModel.HashHeap.GuardOrder

namespace CimbaModel.Props.C06
open CimbaModel CimbaModel.HashHeap CimbaModel.Generated CimbaModel.HashHeap.SpecOrders

/-- the waiting-list comparison found in the C source (regenerated on every run) is exactly the
    documented order: higher priority first, then earlier entry time, then lower key -/
theorem guard_order_is_lex (a b : HTag) : guard_queue_check a b = true ↔ guardLt a b :=
  Orders.guard_queue_check_iff a b

/-- hence a strict weak order that is total on distinct keys: the waiter to be served next is unique -/
theorem guard_order_total : TotalOnKeys guard_queue_check := inferInstance

/-- a lower-priority waiter never goes before a higher-priority one, whatever the arrival times -/
theorem higher_priority_first (a b : HTag) (h : a.i < b.i) : guard_queue_check a b = false := by
  cases hc : guard_queue_check a b with
  | false => rfl
  | true => rw [guard_order_is_lex] at hc; unfold guardLt at hc; omega

/-- among equal priorities the earlier waiter goes first -/
theorem equal_priority_fifo (a b : HTag) (hi : a.i = b.i) (hd : a.d < b.d) : guard_queue_check a b = true := by
  rw [guard_order_is_lex]; unfold guardLt; omega

/- non-vacuity: the documented order on a concrete pair -/
example : guardLt { key := 2, d := 2, i := 5 } { key := 1, d := 1, i := 1 } := by decide

end CimbaModel.Props.C06
