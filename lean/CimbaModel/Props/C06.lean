/-
  C06 — waiters are served by priority, then by waiting time; priority changes reorder.
  Property theorems only.
-/
import CimbaModel.HashHeap.GuardOrder
import CimbaModel.Sim.S3GuardOps
import CimbaModel.Sim.S3All

namespace CimbaModel.Props.C06
open CimbaModel CimbaModel.HashHeap CimbaModel.Generated CimbaModel.HashHeap.SpecOrders
open CimbaModel.Sim CimbaModel.Sim.S3 CimbaModel.KPQ

/-- the waiting-list comparison found in the C source (regenerated on every run) is exactly the
    documented order: higher priority first, then earlier entry time, then lower key -/
theorem guard_order_is_lex (a b : HTag) : guard_queue_check a b = true ↔ guardLt a b :=
  Orders.guard_queue_check_iff a b

/-- hence a strict weak order that is total on distinct keys: the waiter to be served next is unique -/
theorem guard_order_total : TotalOnKeys guard_queue_check := inferInstance

/-- a lower-priority waiter never goes before a higher-priority one, whatever the arrival times -/
theorem higher_priority_first (a b : HTag) (h : a.i < b.i) : guard_queue_check a b = false := by
  cases hc : guard_queue_check a b with
  | false => rfl
  | true => rw [guard_order_is_lex] at hc; unfold guardLt at hc; omega

/-- among equal priorities the earlier waiter goes first -/
theorem equal_priority_fifo (a b : HTag) (hi : a.i = b.i) (hd : a.d < b.d) : guard_queue_check a b = true := by
  rw [guard_order_is_lex]; unfold guardLt; omega

/- non-vacuity: the documented order on a concrete pair -/
example : guardLt { key := 2, d := 2, i := 5 } { key := 1, d := 1, i := 1 } := by decide


/-! ### process level: who is served, with which wake-up, and what a priority change does

`frontStep w g gd` is the part of `cmb_resourceguard_signal` that concerns the guard's own waiting list
(`guardSignal (fuel+1) w g = observers.foldl (fwdSignal fuel) (frontStep w g gd)`, see `signal_is_front_then_observers`;
`fwdSignal fuel w o` is the delivery of the forwarded signal to observer `o`: a plain `guardSignal` unless `o` is the guard of a
condition, which gets `condSignal` — Props/C13 `forwarded_signal_is_condition_signal`);
`grant w g q' k` is the world in which the queue of `g` is `q'` and the wake-up (aRes, k, SUCCESS) is pending at the
current time with the waiter's current priority (`grant_event`). `abs q` is the waiting set as a keyed priority queue
(C02). -/

theorem signal_is_front_then_observers (fuel : Nat) (w : World) (g : Nat) :
    guardSignal (fuel + 1) w g =
      match w.guards[g]? with
      | none => w
      | some gd => gd.observers.foldl (fun w o => fwdSignal fuel w o) (frontStep w g gd) :=
  guardSignal_succ fuel w g

/-- the wake-up of a grant: one new event (aRes, key, SUCCESS) at the current time with the waiter's current priority;
    clock, processes and every other component except the queue of `g` are untouched -/
theorem grant_event (w : World) (g : Nat) (q' : HH) (k : Nat) :
    (grant w g q' k).ev.pending =
      { key := w.ev.counter + 1, item := ⟨aRes, k, encSig sigSuccess, 0⟩, d := w.now, i := (w.proc (k - 1)).prio } :: w.ev.pending ∧
    (grant w g q' k).now = w.now ∧ (grant w g q' k).procs = w.procs ∧
    (∀ g', g' ≠ g → (grant w g q' k).guards[g']? = w.guards[g']?) ∧
    (∀ gd, w.guards[g]? = some gd → (grant w g q' k).guards[g]? = some { gd with q := q' }) := by
  refine ⟨rfl, rfl, rfl, ?_, ?_⟩
  · intro g' hne; simp [grant, setGuardQ_guards_get, hne]
  · intro gd hg; simp [grant, setGuardQ_guards_get, hg]

/-- `served_in_order`: on a non-empty well-formed waiting list the signal looks at exactly one waiter, the minimum `t` of
    the waiting set under the documented order — every other waiter comes strictly after it —, and grants it
    (dequeue + wake-up) iff its demand holds; otherwise nothing changes -/
theorem served_in_order (w : World) (g : Nat) (gd : Guard) (hwf : WF guard_queue_check gd.q) (hpos : 0 < gd.q.count) :
    IsMin guard_queue_check (abs gd.q) (norm (gd.q.tag 1)) ∧
    (∀ x ∈ abs gd.q, x.key ≠ (gd.q.tag 1).key → guardLt (norm (gd.q.tag 1)) x) ∧
    (evalDemand w (demandOf gd (gd.q.tag 1).key) = true →
      ∃ q', WF guard_queue_check q' ∧ (abs gd.q).Perm (norm (gd.q.tag 1) :: abs q') ∧
        frontStep w g gd = grant w g q' (gd.q.tag 1).key) ∧
    (evalDemand w (demandOf gd (gd.q.tag 1).key) = false → frontStep w g gd = w) := by
  obtain ⟨hmin, hfalse, htrue⟩ := (frontStep_spec w g gd hwf).2 hpos
  refine ⟨hmin, ?_, ?_, hfalse⟩
  · intro x hx hne
    have hk : (norm (gd.q.tag 1)).key ≠ x.key := fun h => hne h.symm
    rcases TotalOnKeys.total (lt := guard_queue_check) _ _ hk with h | h
    · exact (guard_order_is_lex _ _).1 h
    · rw [hmin.2 x hx] at h; cases h
  · intro hd
    obtain ⟨q', _, hwf', hperm, heq⟩ := htrue hd
    exact ⟨q', hwf', hperm, heq⟩

/-- `no_overtake`: whenever a waiter `t` is granted, every waiter that stays queued has a lower priority, or the same
    priority and a later entry time, or the same priority and entry time and a larger key: a lower-priority waiter is
    never served ahead of a higher-priority one that was already waiting, and equal priorities are served first come
    first served -/
theorem no_overtake (w : World) (g : Nat) (gd : Guard) (hwf : WF guard_queue_check gd.q) (hpos : 0 < gd.q.count)
    (hd : evalDemand w (demandOf gd (gd.q.tag 1).key) = true) :
    ∃ q', frontStep w g gd = grant w g q' (gd.q.tag 1).key ∧ (abs gd.q).Perm (norm (gd.q.tag 1) :: abs q') ∧
      ∀ x ∈ abs q', x.i ≤ (gd.q.tag 1).i ∧ (x.i = (gd.q.tag 1).i → (gd.q.tag 1).d ≤ x.d) ∧
        (x.i = (gd.q.tag 1).i → x.d = (gd.q.tag 1).d → (gd.q.tag 1).key < x.key) := by
  obtain ⟨_, hstrict, htrue, _⟩ := served_in_order w g gd hwf hpos
  obtain ⟨q', _, hperm, heq⟩ := htrue hd
  refine ⟨q', heq, hperm, ?_⟩
  intro x hx
  have hxs : x ∈ abs gd.q := hperm.mem_iff.2 (List.mem_cons_of_mem _ hx)
  have hnd : (keys (abs gd.q)).Nodup := hwf.keys_nodup
  have hkp : (keys (abs gd.q)).Perm ((gd.q.tag 1).key :: keys (abs q')) := by
    have := hperm.map (·.key); simpa [keys, norm] using this
  have hnotin : (gd.q.tag 1).key ∉ keys (abs q') := (List.nodup_cons.1 (hkp.nodup_iff.1 hnd)).1
  have hne : x.key ≠ (gd.q.tag 1).key := fun h => hnotin (h ▸ Event.mem_keys.2 ⟨x, hx, rfl⟩)
  have := hstrict x hxs hne
  unfold guardLt at this
  simp only [norm] at this
  omega

/-- `guardWaitEnter` enqueues the caller with key p+1, entry time = the current time, priority = its current priority -/
theorem enter_enqueues {w : World} {g : Nat} {gd : Guard} (hg : w.guards[g]? = some gd) (hwf : WF guard_queue_check gd.q)
    (p : Pid) (d : Demand) (h64 : p + 1 < 2 ^ 64) (hfresh : p + 1 ∉ keys (abs gd.q))
    (hroom : gd.q.count < 2 ^ gd.q.exp ∨ gd.q.exp < 31) :
    ∃ q', WF guard_queue_check q' ∧
      (abs q').Perm (⟨p + 1, 0, ⟨p + 1, 0, 0, 0⟩, w.now, (w.proc p).prio⟩ :: abs gd.q) ∧
      guardWaitEnter w g p d = enterWorld w g gd q' p d ∧
      (enterWorld w g gd q' p d).guards[g]? =
        some { gd with q := q', demands := (p + 1, d) :: gd.demands.filter (·.1 ≠ p + 1) } ∧
      demandOf { gd with q := q', demands := (p + 1, d) :: gd.demands.filter (·.1 ≠ p + 1) } (p + 1) = d := by
  obtain ⟨q', _, hwf', hperm, heq⟩ := guardWaitEnter_spec hg hwf p d h64 hfresh hroom
  have hsz : g < w.guards.size := by
    rcases Nat.lt_or_ge g w.guards.size with h | h
    · exact h
    · rw [Array.getElem?_eq_none h] at hg; cases hg
  refine ⟨q', hwf', hperm, heq, enterWorld_guard w g gd q' p d hsz, ?_⟩
  rw [enter_demandOf]; simp

/-- `cmb_process_priority_set` walks the awaits of the target (then its pool holdings); for an awaited guard it does
    `reprioGuard` -/
theorem prioSet_walks_awaits (w : World) (p q : Pid) (v : Int) (hq : q < w.procs.size) :
    execCmd w p (.prioSet q v) =
      (let w1 := w.modProc q fun y => { y with prio := v }
       let w2 := (w1.proc q).awaits.foldl (prioAwaitStep q v) w1
       ((w2.proc q).held.foldl (prioHeldStep q v) w2, .ret 0 "")) ∧
    ∀ w' g, prioAwaitStep q v w' (.guard g) = reprioGuard w' q v g :=
  ⟨prioSet_eq w p q v hq, fun _ _ => rfl⟩

/-- `reprio_repositions`: the entry of a waiting process gets the new priority and keeps its entry time, key and payload;
    every other entry is untouched; the list stays well-formed (so the next signal serves the minimum under the new
    priorities); a process that is not queued changes nothing -/
theorem reprio_repositions {w : World} {g : Nat} {gd : Guard} (hg : w.guards[g]? = some gd) (hwf : WF guard_queue_check gd.q)
    (q : Pid) (v : Int) :
    (q + 1 ∈ keys (abs gd.q) →
      ∃ q', WF guard_queue_check q' ∧ reprioGuard w q v g = setGuardQ w g q' ∧
        (∀ t ∈ abs gd.q, t.key = q + 1 → { t with i := v } ∈ abs q') ∧
        (∀ t ∈ abs gd.q, t.key ≠ q + 1 → t ∈ abs q') ∧
        (∀ t' ∈ abs q', (t'.key = q + 1 ∧ t'.i = v ∧ ∃ t ∈ abs gd.q, t' = { t with i := v }) ∨
                        (t'.key ≠ q + 1 ∧ t' ∈ abs gd.q))) ∧
    (q + 1 ∉ keys (abs gd.q) → reprioGuard w q v g = w) := by
  obtain ⟨hin, hout⟩ := reprioGuard_spec hg hwf q v
  refine ⟨?_, hout⟩
  intro hk
  obtain ⟨q', hwf', hperm, heq⟩ := hin hk
  refine ⟨q', hwf', heq, ?_, ?_, ?_⟩
  · intro t ht hkey
    apply hperm.mem_iff.2
    exact List.mem_map.2 ⟨t, ht, by simp [hkey]⟩
  · intro t ht hkey
    apply hperm.mem_iff.2
    exact List.mem_map.2 ⟨t, ht, by simp [hkey]⟩
  · intro t' ht'
    obtain ⟨t, ht, rfl⟩ := List.mem_map.1 (hperm.mem_iff.1 ht')
    by_cases hkey : t.key = q + 1
    · left
      have : (if t.key = q + 1 then { t with i := v } else t) = { t with i := v } := if_pos hkey
      rw [this]; exact ⟨hkey, rfl, t, ht, rfl⟩
    · right
      have : (if t.key = q + 1 then { t with i := v } else t) = t := if_neg hkey
      rw [this]; exact ⟨hkey, ht⟩

/- non-vacuity: a world with a well-formed, non-empty waiting list exists, so the hypotheses of `served_in_order`,
   `no_overtake` (given a true demand) and `reprio_repositions` are satisfiable -/
example : ∃ (w : World) (gd : Guard), w.guards[0]? = some gd ∧ WF guard_queue_check gd.q ∧ 0 < gd.q.count ∧
    3 ∈ keys (abs gd.q) := by
  obtain ⟨s0, _, hwf0, habs0, _, hexp, _⟩ := init_spec (lt := guard_queue_check) 3 (by decide) (by decide)
  have hc0 : s0.count = 0 := by rw [← abs_length, habs0]; rfl
  obtain ⟨s1, _, hwf1, hperm, _⟩ := enqueue_abs hwf0 ⟨3, 0, 0, 0⟩ 3 0 0 (by simp) (by simp)
    (by rw [habs0]; simp [keys]) (Or.inl (by rw [hc0]; exact two_pow_pos _))
  refine ⟨{ guards := #[{ q := s1 }] }, { q := s1 }, rfl, hwf1, ?_, ?_⟩
  · rw [← abs_length, hperm.length_eq]; simp [KPQ.insert]
  · have : (⟨3, 0, ⟨3, 0, 0, 0⟩, 0, 0⟩ : HTag) ∈ abs s1 := hperm.mem_iff.2 (by simp [KPQ.insert, norm])
    exact List.mem_map.2 ⟨_, this, rfl⟩


/-! ### in every reachable state

`AllInv` (Props/C04, Sim/S3All) is an invariant of `dispatch`; one of its clauses is that every waiting list is a
well-formed hashheap, so the hypothesis `WF guard_queue_check gd.q` of the theorems above holds at every signal of every
run that starts in a state satisfying `InitOkG` and the static side conditions `SideOk`. -/

theorem waiting_lists_wellformed {w0 w : World} (hr : Reach w0 w) (h0 : AllInv w0) (g : Nat) (gd : Guard)
    (hg : w.guards[g]? = some gd) : WF guard_queue_check gd.q := (h0.reach hr).g.gw g gd hg

/-- `served_in_order` / `no_overtake` without the well-formedness hypothesis -/
theorem served_in_order_reachable {w0 w : World} (hr : Reach w0 w) (h0 : AllInv w0) (g : Nat) (gd : Guard)
    (hg : w.guards[g]? = some gd) (hpos : 0 < gd.q.count) :
    IsMin guard_queue_check (abs gd.q) (norm (gd.q.tag 1)) ∧
    (∀ x ∈ abs gd.q, x.key ≠ (gd.q.tag 1).key → guardLt (norm (gd.q.tag 1)) x) ∧
    (evalDemand w (demandOf gd (gd.q.tag 1).key) = true →
      ∃ q', frontStep w g gd = grant w g q' (gd.q.tag 1).key ∧ (abs gd.q).Perm (norm (gd.q.tag 1) :: abs q') ∧
        ∀ x ∈ abs q', x.i ≤ (gd.q.tag 1).i ∧ (x.i = (gd.q.tag 1).i → (gd.q.tag 1).d ≤ x.d) ∧
          (x.i = (gd.q.tag 1).i → x.d = (gd.q.tag 1).d → (gd.q.tag 1).key < x.key)) ∧
    (evalDemand w (demandOf gd (gd.q.tag 1).key) = false → frontStep w g gd = w) := by
  have hwf := waiting_lists_wellformed hr h0 g gd hg
  obtain ⟨h1, h2, _, h4⟩ := served_in_order w g gd hwf hpos
  exact ⟨h1, h2, fun hd => no_overtake w g gd hwf hpos hd, h4⟩

/-- who is in a waiting list (I_guard): a queued key is `p + 1` for an existing process `p` that awaits exactly this
    guard and is suspended in a wait on it -/
theorem queued_is_waiting {w0 w : World} (hr : Reach w0 w) (h0 : AllInv w0) {g k : Nat} (hq : queued w g k) :
    ∃ p f, k = p + 1 ∧ p < w.procs.size ∧ Await.guard g ∈ (w.proc p).awaits ∧ guardAw w p = [.guard g] ∧
      (w.proc p).blocked = some f ∧ FrameOn w f g := (h0.reach hr).g.queued_means hq

end CimbaModel.Props.C06
