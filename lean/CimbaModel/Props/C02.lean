/-
  C02 — the hashheap behaves as a keyed priority queue under any operation history.
  Property theorems only (helper lemmas live under CimbaModel/HashHeap/).
-/
import CimbaModel.HashHeap.Orders
import CimbaModel.HashHeap.GuardOrder
import CimbaModel.HashHeap.Hash
import CimbaModel.HashHeap.Inv
import CimbaModel.HashHeap.RefineLookup

namespace CimbaModel.Props.C02
open CimbaModel CimbaModel.HashHeap CimbaModel.Generated CimbaModel.KPQ

/-! ### the ordering functions found in the C sources (regenerated on every run) are strict weak orders,
    total on distinct keys where the library relies on a unique minimum -/

theorem event_order_total : TotalOnKeys heap_order_check := inferInstance
theorem guard_order_total : TotalOnKeys guard_queue_check := inferInstance
theorem holder_order_total : TotalOnKeys holder_queue_check := inferInstance
theorem pq_order_total : TotalOnKeys compare_func := inferInstance
theorem default_order_strict_weak : StrictWeak default_order_check := inferInstance

/-! ### the regenerated hash function is the model's, and lands inside the map -/

theorem hash_key_is_model (s : HH) (k : Nat) (h : s.exp < 63) : hash_key s k = hashKey s.exp k :=
  hash_key_eq s k h

theorem hash_key_in_range (s : HH) (k : Nat) (h : s.exp < 63) : hash_key s k < 2 ^ (s.exp + 1) := by
  rw [hash_key_eq s k h]; exact hashKey_lt s.exp k h

theorem item_match_is_model (t : HTag) (p : Item) : item_match t p.a p.b p.c p.d = itemMatch t p :=
  item_match_eq t p

/-! ### none of the library's ordering functions looks at the hash back-pointer of a tag
    (needed for capacity doublings, which re-home every entry in the hash map) -/

theorem event_order_ignores_hidx : IgnoresHidx heap_order_check := inferInstance
theorem guard_order_ignores_hidx : IgnoresHidx guard_queue_check := inferInstance
theorem holder_order_ignores_hidx : IgnoresHidx holder_queue_check := inferInstance
theorem pq_order_ignores_hidx : IgnoresHidx compare_func := inferInstance
theorem default_order_ignores_hidx : IgnoresHidx default_order_check := inferInstance

/-! ### refinement: every operation of the concrete hashheap, on a well-formed state, never faults, keeps the
    state well-formed and acts on the abstraction `abs s : KPQ` as the keyed-priority-queue specification says.

    `lt` is an arbitrary strict weak order.  Where a capacity doubling can happen (`enqueue`) and where the
    statement compares back-pointer-free copies of the tags (`IsMin … (abs s)`), `lt` must not look at the hash
    back-pointer (`IgnoresHidx lt`; all five ordering functions of the library satisfy it, see above).  This
    hypothesis is necessary: `grow` re-homes every entry, so an order that inspected `hash_index` would see a
    different heap afterwards. -/

section refinement
variable {lt : Order}

theorem init_WF (e : Nat) (h1 : 1 ≤ e) (h31 : e ≤ 31) : ∃ s, init e = .ok s ∧ WF lt s ∧ abs s = [] := by
  obtain ⟨s, h, hwf, habs, _⟩ := init_spec (lt := lt) e h1 h31
  exact ⟨s, h, hwf, habs⟩

/-- live keys are pairwise distinct -/
theorem keys_nodup {s : HH} (h : WF lt s) : (keys (abs s)).Nodup := h.keys_nodup

/-- live keys are non-zero 64-bit values -/
theorem keys_valid {s : HH} (h : WF lt s) {k : Nat} (hk : k ∈ keys (abs s)) : k ≠ 0 ∧ k < 2 ^ 64 := h.keys_ne_zero hk

/-- the count is the number of live keys -/
theorem count_eq (s : HH) : (abs s).length = s.count := abs_length s

theorem enqueue_refines [StrictWeak lt] [IgnoresHidx lt] {s : HH} (h : WF lt s) (it : Item) (k : Nat) (d i : Int) :
    let k' := if k = 0 then s.counter + 1 else k
    k' ≠ 0 → k' < 2 ^ 64 → k' ∉ keys (abs s) → (s.count < 2 ^ s.exp ∨ s.exp < 31) →
    ∃ s', enqueue lt s it k d i = .ok (s', k') ∧ WF lt s' ∧
      (abs s').Perm (KPQ.insert (abs s) ⟨k', 0, it, d, i⟩) ∧ s'.counter = s.counter + 1 := by
  intro k' h0 h64 hf hroom
  obtain ⟨s', hrun, hwf, hperm, hct, _⟩ := enqueue_abs h it k d i h0 h64 hf hroom
  exact ⟨s', hrun, hwf, hperm, hct⟩

/-- without a capacity doubling no assumption on the order beyond strict weak is needed -/
theorem enqueue_refines_no_growth [StrictWeak lt] {s : HH} (h : WF lt s) (it : Item) (k : Nat) (d i : Int) :
    let k' := if k = 0 then s.counter + 1 else k
    k' ≠ 0 → k' < 2 ^ 64 → k' ∉ keys (abs s) → s.count < 2 ^ s.exp →
    ∃ s', enqueue lt s it k d i = .ok (s', k') ∧ WF lt s' ∧
      (abs s').Perm (KPQ.insert (abs s) ⟨k', 0, it, d, i⟩) ∧ s'.counter = s.counter + 1 ∧ s'.exp = s.exp := by
  intro k' h0 h64 hf hroom
  have hg := growOK_of_room h hroom
  obtain ⟨s', hrun, hwf, hperm, hct, _, hexp, hc⟩ := enqueue_abs_of_grow h it k d i h0 h64 hf hg
  refine ⟨s', hrun, hwf, hperm, hct, ?_⟩
  -- the exponent is unchanged: read it off the run
  have hne : s.count ≠ 2 ^ s.exp := by omega
  rw [enqueue_eq, if_neg (by have := h.countLe; omega), if_neg hne] at hrun
  obtain ⟨p, s2, hrun2, _, _, he2, _⟩ := enqueueCore_spec h hroom it k d i k' rfl h0 h64
    (fun j hj he => hf ((mem_keys_abs s k').2 ⟨j, hj, he⟩))
  have : (Except.ok (s2, k') : Except Fault (HH × Nat)) = .ok (s', k') := by
    rw [← hrun2]; exact hrun
  injection this with this
  injection this with this
  subst this
  exact he2

theorem dequeue_refines [StrictWeak lt] [IgnoresHidx lt] {s : HH} (h : WF lt s) (hpos : 0 < s.count) :
    ∃ s' e, dequeue lt s = .ok (s', some e) ∧ WF lt s' ∧ IsMin lt (abs s) (norm e) ∧
      (abs s).Perm (norm e :: abs s') := by
  obtain ⟨s', hrun, hwf, hperm, _⟩ := dequeue_abs h hpos
  exact ⟨s', s.tag 1, hrun, hwf, root_isMin_abs h hpos, hperm⟩

/-- the same for an arbitrary strict weak order, minimality stated on the tags as stored -/
theorem dequeue_refines_raw [StrictWeak lt] {s : HH} (h : WF lt s) (hpos : 0 < s.count) :
    ∃ s' e, dequeue lt s = .ok (s', some e) ∧ WF lt s' ∧ IsMin lt (liveTags s) e ∧
      (abs s).Perm (norm e :: abs s') := by
  obtain ⟨s', hrun, hwf, hperm, _⟩ := dequeue_abs h hpos
  exact ⟨s', s.tag 1, hrun, hwf, root_isMin h hpos, hperm⟩

theorem dequeue_empty (s : HH) (h0 : s.count = 0) : dequeue lt s = .ok (s, none) := by
  simp [dequeue, h0]

theorem peek_correct [StrictWeak lt] [IgnoresHidx lt] {s : HH} (h : WF lt s) (hpos : 0 < s.count) :
    ∃ t, peek s = .ok (some t) ∧ IsMin lt (abs s) (norm t) :=
  ⟨s.tag 1, peek_spec h hpos, root_isMin_abs h hpos⟩

theorem peek_correct_raw [StrictWeak lt] {s : HH} (h : WF lt s) (hpos : 0 < s.count) :
    ∃ t, peek s = .ok (some t) ∧ IsMin lt (liveTags s) t :=
  ⟨s.tag 1, peek_spec h hpos, root_isMin h hpos⟩

theorem peek_empty (s : HH) (h0 : s.count = 0) : peek s = .ok none := by
  simp [peek, h0]

theorem remove_refines [StrictWeak lt] {s : HH} (h : WF lt s) (k : Nat) (hk0 : k ≠ 0) :
    ∃ s', remove lt s k = .ok (s', decide (k ∈ keys (abs s))) ∧ WF lt s' ∧
      (abs s').Perm (KPQ.remove (abs s) k) := by
  obtain ⟨s', hrun, hwf, hperm, _⟩ := remove_abs h k hk0
  exact ⟨s', hrun, hwf, hperm⟩

theorem reprio_refines [StrictWeak lt] {s : HH} (h : WF lt s) {k : Nat} (hk : k ∈ keys (abs s)) (d i : Int) :
    ∃ s', reprioritize lt s k d i = .ok s' ∧ WF lt s' ∧ (abs s').Perm (KPQ.reprio (abs s) k d i) := by
  obtain ⟨s', hrun, hwf, hperm, _⟩ := reprio_abs h hk d i
  exact ⟨s', hrun, hwf, hperm⟩

/-- a payload (and the sort keys) stay attached to their key however entries move inside the structure -/
theorem lookup_correct {s : HH} (h : WF lt s) {k : Nat} (hk : k ∈ keys (abs s)) :
    ∃ t, lookup s k = .ok t ∧ KPQ.lookup (abs s) k = some (norm t) := lookup_spec h hk

theorem isEnqueued_correct {s : HH} (h : WF lt s) (k : Nat) (hk0 : k ≠ 0) :
    isEnqueued s k = .ok (decide (k ∈ keys (abs s))) := isEnqueued_spec h k hk0

theorem patternCount_correct (s : HH) (p : Item) : patternCount s p = (matching (abs s) p).length :=
  patternCount_spec s p

/-- `pattern_find` returns 0 exactly when nothing matches, otherwise the key of a matching entry -/
theorem patternFind_correct {s : HH} (h : WF lt s) (p : Item) :
    (patternFind s p = 0 ↔ matching (abs s) p = []) ∧
    (patternFind s p ≠ 0 → ∃ t, t ∈ matching (abs s) p ∧ t.key = patternFind s p) := patternFind_spec h p

theorem patternCancel_refines [StrictWeak lt] {s : HH} (h : WF lt s) (p : Item) :
    ∃ s', patternCancel lt s p = .ok (s', (matching (abs s) p).length) ∧ WF lt s' ∧
      (abs s').Perm (removeMatching (abs s) p) := by
  obtain ⟨s', hrun, hwf, hperm, _⟩ := patternCancel_abs h p
  exact ⟨s', hrun, hwf, hperm⟩

theorem clear_refines {s : HH} (h : WF lt s) : WF lt (clear s) ∧ abs (clear s) = [] ∧ (clear s).counter = s.counter :=
  ⟨(clear_spec h).1, (clear_spec h).2.1, (clear_spec h).2.2.1⟩

theorem reset_refines {s : HH} (h : WF lt s) :
    ∃ s', reset s = .ok s' ∧ WF lt s' ∧ abs s' = [] ∧ s'.counter = s.counter := by
  obtain ⟨s', hrun, hwf, habs, hct, _⟩ := reset_spec h
  exact ⟨s', hrun, hwf, habs, hct⟩

/-- any operation sequence whose operations meet their documented preconditions keeps the state well-formed
    and never faults (no out-of-bounds access, no library abort, `hash_find_slot` terminates), across any
    number of capacity doublings -/
theorem run_preserves_WF [StrictWeak lt] [IgnoresHidx lt] {s : HH} (h : WF lt s) (ops : List Op)
    (hpre : PreAll lt s ops) : ∃ s', run lt s ops = .ok s' ∧ WF lt s' := run_WF ops h hpre

theorem reachable_WF [StrictWeak lt] [IgnoresHidx lt] (e : Nat) (h1 : 1 ≤ e) (h31 : e ≤ 31) (ops : List Op) :
    ∃ s0, init e = .ok s0 ∧ (PreAll lt s0 ops → ∃ s', run lt s0 ops = .ok s' ∧ WF lt s') := by
  obtain ⟨s0, hinit, hwf, _⟩ := init_spec (lt := lt) e h1 h31
  exact ⟨s0, hinit, fun hpre => run_WF ops hwf hpre⟩

/-- one operation with its observable result is a step of the keyed-priority-queue specification `SpecStep`
    (HashHeap/RefineTrace.lean) on the abstraction -/
theorem op_refines_spec [StrictWeak lt] [IgnoresHidx lt] {s : HH} (h : WF lt s) (op : Op) (hpre : OpPre s op) :
    ∃ s' r, stepR lt s op = .ok (s', r) ∧ WF lt s' ∧ SpecStep lt (abs s, s.counter) op r (abs s', s'.counter) :=
  step_refines h op hpre

/-- C02 for whole histories: from any initial exponent, every operation sequence whose operations meet their
    preconditions runs without fault, and the observable results (keys issued, tags dequeued / peeked / looked up
    without their internal back-pointer, removal and membership answers, pattern counts and finds) form a run of
    the specification started from the empty queue -/
theorem history_refines_spec [StrictWeak lt] [IgnoresHidx lt] (e : Nat) (h1 : 1 ≤ e) (h31 : e ≤ 31) (ops : List Op) :
    ∃ s0, init e = .ok s0 ∧ (PreAll lt s0 ops →
      ∃ s' rs, runR lt s0 ops = .ok (s', rs) ∧ WF lt s' ∧ SpecRun lt ([], 0) ops rs (abs s', s'.counter)) := by
  obtain ⟨s0, hinit, hwf, habs, hct, _⟩ := init_spec (lt := lt) e h1 h31
  refine ⟨s0, hinit, fun hpre => ?_⟩
  obtain ⟨s', rs, hrun, hwf', hspec⟩ := run_refines ops hwf hpre
  rw [habs, hct] at hspec
  exact ⟨s', rs, hrun, hwf', hspec⟩

/-! #### a payload stays attached to its key: what a lookup by key reports after each updating operation -/

theorem payload_sticks_enqueue [StrictWeak lt] [IgnoresHidx lt] {s : HH} (h : WF lt s) (it : Item) (k : Nat) (d i : Int) :
    let k' := if k = 0 then s.counter + 1 else k
    k' ≠ 0 → k' < 2 ^ 64 → k' ∉ keys (abs s) → (s.count < 2 ^ s.exp ∨ s.exp < 31) →
    ∃ s', enqueue lt s it k d i = .ok (s', k') ∧
      KPQ.lookup (abs s') k' = some ⟨k', 0, it, d, i⟩ ∧
      ∀ k2, k2 ≠ k' → KPQ.lookup (abs s') k2 = KPQ.lookup (abs s) k2 := by
  intro k' h0 h64 hf hroom
  obtain ⟨s', hrun, hwf, hperm, _⟩ := enqueue_abs h it k d i h0 h64 hf hroom
  exact ⟨s', hrun, lookup_after_insert h hwf ⟨k', 0, it, d, i⟩ hperm⟩

theorem payload_sticks_remove [StrictWeak lt] {s : HH} (h : WF lt s) (k : Nat) (hk0 : k ≠ 0) :
    ∃ s' b, remove lt s k = .ok (s', b) ∧ KPQ.lookup (abs s') k = none ∧
      ∀ k2, k2 ≠ k → KPQ.lookup (abs s') k2 = KPQ.lookup (abs s) k2 := by
  obtain ⟨s', hrun, hwf, hperm, _⟩ := remove_abs h k hk0
  exact ⟨s', _, hrun, lookup_after_remove h hwf k hperm⟩

theorem payload_sticks_reprio [StrictWeak lt] {s : HH} (h : WF lt s) {k : Nat} (hk : k ∈ keys (abs s)) (d i : Int) :
    ∃ s', reprioritize lt s k d i = .ok s' ∧
      KPQ.lookup (abs s') k = (KPQ.lookup (abs s) k).map (fun t => { t with d := d, i := i }) ∧
      ∀ k2, k2 ≠ k → KPQ.lookup (abs s') k2 = KPQ.lookup (abs s) k2 := by
  obtain ⟨s', hrun, hwf, hperm, _⟩ := reprio_abs h hk d i
  exact ⟨s', hrun, lookup_after_reprio h hwf k d i hperm⟩

theorem payload_sticks_dequeue [StrictWeak lt] {s : HH} (h : WF lt s) (hpos : 0 < s.count) :
    ∃ s' e, dequeue lt s = .ok (s', some e) ∧ KPQ.lookup (abs s) e.key = some (norm e) ∧
      KPQ.lookup (abs s') e.key = none ∧
      ∀ k, k ≠ e.key → KPQ.lookup (abs s') k = KPQ.lookup (abs s) k := by
  obtain ⟨s', hrun, hwf, hperm, _⟩ := dequeue_abs h hpos
  refine ⟨s', s.tag 1, hrun, ?_, lookup_after_dequeue h hwf (norm (s.tag 1)) hperm⟩
  rw [lookup_eq_some_iff h.keys_nodup]
  exact ⟨hperm.mem_iff.2 List.mem_cons_self, rfl⟩

/-- the concrete accessor agrees: if the abstract lookup of a live key is unchanged between two well-formed
    states, `lookup` (the common part of `cmi_hashheap_item/dkey/ikey`) returns the same payload and sort keys -/
theorem payload_sticks_concrete {s s' : HH} (h : WF lt s) (h' : WF lt s') {k : Nat} (hk : k ∈ keys (abs s))
    (heq : KPQ.lookup (abs s') k = KPQ.lookup (abs s) k) :
    ∃ t t', lookup s k = .ok t ∧ lookup s' k = .ok t' ∧ norm t' = norm t := by
  obtain ⟨t, hrun, hl⟩ := lookup_spec h hk
  have hk' : k ∈ keys (abs s') := by
    apply Classical.byContradiction
    intro hn
    rw [(lookup_eq_none_iff _ _).2 hn, hl] at heq
    cases heq
  obtain ⟨t', hrun', hl'⟩ := lookup_spec h' hk'
  refine ⟨t, t', hrun, hrun', ?_⟩
  rw [hl, hl'] at heq
  exact Option.some.inj heq

end refinement

/-! ### the hypotheses are satisfiable -/

/-- a well-formed non-empty state exists (built by the theorems themselves), so the hypotheses `WF lt s`,
    `0 < s.count`, `k ∈ keys (abs s)` of the theorems above are satisfiable -/
example : ∃ s : HH, WF default_order_check s ∧ 0 < s.count ∧ 5 ∈ keys (abs s) := by
  obtain ⟨s0, _, hwf0, habs0, _, hexp, _⟩ := init_spec (lt := default_order_check) 1 (by decide) (by decide)
  have hc0 : s0.count = 0 := by rw [← abs_length, habs0]; rfl
  obtain ⟨s1, _, hwf1, hperm, _⟩ := enqueue_refines hwf0 {} 5 0 0 (by simp) (by simp)
    (by rw [habs0]; simp [keys]) (Or.inl (by rw [hc0]; exact two_pow_pos _))
  refine ⟨s1, hwf1, ?_, ?_⟩
  · rw [← abs_length, hperm.length_eq]; simp [KPQ.insert]
  · have : (⟨5, 0, {}, 0, 0⟩ : HTag) ∈ abs s1 := hperm.mem_iff.2 (by simp [KPQ.insert, norm])
    exact List.mem_map.2 ⟨_, this, rfl⟩

/-- the precondition of a whole run is satisfiable: enqueue (auto key 1), reprioritize it, remove it, dequeue
    on a fresh heap -/
example : ∃ s0, init 1 = .ok s0 ∧
    PreAll default_order_check s0 [.enqueue {} 0 3 0, .reprio 1 5 0, .remove 1, .dequeue] := by
  obtain ⟨s0, hinit, hwf0, habs0, hct0, hexp, _⟩ := init_spec (lt := default_order_check) 1 (by decide) (by decide)
  have hc0 : s0.count = 0 := by rw [← abs_length, habs0]; rfl
  have hpre : OpPre s0 (.enqueue {} 0 3 0) := by
    simp only [OpPre, hct0, habs0]
    exact ⟨by decide, by decide, by simp [keys], Or.inl (by rw [hc0]; exact two_pow_pos _)⟩
  refine ⟨s0, hinit, hpre, ?_⟩
  intro s1 h1
  obtain ⟨s', hrun, _, hperm, _⟩ := enqueue_refines hwf0 {} 0 3 0 hpre.1 hpre.2.1 hpre.2.2.1 hpre.2.2.2
  have hs1 : s' = s1 := by simpa [step, hrun] using h1
  subst hs1
  refine ⟨?_, fun _ _ => ⟨(by decide : (1 : Nat) ≠ 0), fun _ _ => ⟨trivial, fun _ _ => trivial⟩⟩⟩
  have : (⟨1, 0, {}, 3, 0⟩ : HTag) ∈ abs s' := hperm.mem_iff.2 (by simp [KPQ.insert, norm, hct0])
  exact List.mem_map.2 ⟨_, this, rfl⟩

end CimbaModel.Props.C02
