/-
  C02 — the hashheap behaves as a keyed priority queue under any operation history.
  Property theorems only (helper lemmas live under CimbaModel/HashHeap/).
-/
import CimbaModel.HashHeap.Orders
import CimbaModel.HashHeap.GuardOrder
import CimbaModel.HashHeap.Hash
import CimbaModel.HashHeap.Inv

namespace CimbaModel.Props.C02
open CimbaModel CimbaModel.HashHeap CimbaModel.Generated CimbaModel.KPQ

/-! ### the ordering functions found in the C sources (regenerated on every run) are strict weak orders,
    total on distinct keys where the library relies on a unique minimum -/

theorem event_order_total : TotalOnKeys heap_order_check := inferInstance
theorem guard_order_total : TotalOnKeys guard_queue_check := inferInstance
theorem holder_order_total : TotalOnKeys holder_queue_check := inferInstance
theorem pq_order_total : TotalOnKeys compare_func := inferInstance
theorem default_order_strict_weak : StrictWeak default_order_check := inferInstance

/-! ### the regenerated hash function is the model's, and lands inside the map -/

theorem hash_key_is_model (s : HH) (k : Nat) (h : s.exp < 63) : hash_key s k = hashKey s.exp k :=
  hash_key_eq s k h

theorem hash_key_in_range (s : HH) (k : Nat) (h : s.exp < 63) : hash_key s k < 2 ^ (s.exp + 1) := by
  rw [hash_key_eq s k h]; exact hashKey_lt s.exp k h

theorem item_match_is_model (t : HTag) (p : Item) : item_match t p.a p.b p.c p.d = itemMatch t p :=
  item_match_eq t p

end CimbaModel.Props.C02
