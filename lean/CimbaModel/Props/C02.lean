/-
  C02 — the hashheap behaves as a keyed priority queue under any operation history.
  Property theorems only (helper lemmas live under CimbaModel/HashHeap/).
-/
import CimbaModel.HashHeap.Orders
import CimbaModel.HashHeap.GuardOrder
import CimbaModel.HashHeap.Hash
import CimbaModel.HashHeap.Inv
import CimbaModel.HashHeap.RefineSpec

namespace CimbaModel.Props.C02
open CimbaModel CimbaModel.HashHeap CimbaModel.Generated CimbaModel.KPQ

/-! ### the ordering functions found in the C sources (regenerated on every run) are strict weak orders,
    total on distinct keys where the library relies on a unique minimum -/

theorem event_order_total : TotalOnKeys heap_order_check := inferInstance
theorem guard_order_total : TotalOnKeys guard_queue_check := inferInstance
theorem holder_order_total : TotalOnKeys holder_queue_check := inferInstance
theorem pq_order_total : TotalOnKeys compare_func := inferInstance
theorem default_order_strict_weak : StrictWeak default_order_check := inferInstance

/-! ### the regenerated hash function is the model's, and lands inside the map -/

theorem hash_key_is_model (s : HH) (k : Nat) (h : s.exp < 63) : hash_key s k = hashKey s.exp k :=
  hash_key_eq s k h

theorem hash_key_in_range (s : HH) (k : Nat) (h : s.exp < 63) : hash_key s k < 2 ^ (s.exp + 1) := by
  rw [hash_key_eq s k h]; exact hashKey_lt s.exp k h

theorem item_match_is_model (t : HTag) (p : Item) : item_match t p.a p.b p.c p.d = itemMatch t p :=
  item_match_eq t p

/-! ### none of the library's ordering functions looks at the hash back-pointer of a tag
    (needed for capacity doublings, which re-home every entry in the hash map) -/

theorem event_order_ignores_hidx : IgnoresHidx heap_order_check := inferInstance
theorem guard_order_ignores_hidx : IgnoresHidx guard_queue_check := inferInstance
theorem holder_order_ignores_hidx : IgnoresHidx holder_queue_check := inferInstance
theorem pq_order_ignores_hidx : IgnoresHidx compare_func := inferInstance
theorem default_order_ignores_hidx : IgnoresHidx default_order_check := inferInstance

/-! ### refinement: every operation of the concrete hashheap, on a well-formed state, never faults, keeps the
    state well-formed and acts on the abstraction `abs s : KPQ` as the keyed-priority-queue specification says.

    `lt` is an arbitrary strict weak order.  Where a capacity doubling can happen (`enqueue`) and where the
    statement compares back-pointer-free copies of the tags (`IsMin … (abs s)`), `lt` must not look at the hash
    back-pointer (`IgnoresHidx lt`; all five ordering functions of the library satisfy it, see above).  This
    hypothesis is necessary: `grow` re-homes every entry, so an order that inspected `hash_index` would see a
    different heap afterwards. -/

section refinement
variable {lt : Order}

theorem init_WF (e : Nat) (h1 : 1 ≤ e) (h31 : e ≤ 31) : ∃ s, init e = .ok s ∧ WF lt s ∧ abs s = [] := by
  obtain ⟨s, h, hwf, habs, _⟩ := init_spec (lt := lt) e h1 h31
  exact ⟨s, h, hwf, habs⟩

/-- live keys are pairwise distinct -/
theorem keys_nodup {s : HH} (h : WF lt s) : (keys (abs s)).Nodup := h.keys_nodup

/-- live keys are non-zero 64-bit values -/
theorem keys_valid {s : HH} (h : WF lt s) {k : Nat} (hk : k ∈ keys (abs s)) : k ≠ 0 ∧ k < 2 ^ 64 := h.keys_ne_zero hk

/-- the count is the number of live keys -/
theorem count_eq (s : HH) : (abs s).length = s.count := abs_length s

/-- the hash map always has a free slot, so `hash_find_slot` (a loop without exit in the C code) terminates -/
theorem free_slot_exists {s : HH} (h : WF lt s) : ∃ j, j < s.hash.size ∧ (s.slot j).idx = 0 := by
  rw [h.hashSize]
  have hpow : 2 ^ (s.exp + 1) = 2 * 2 ^ s.exp := by rw [Nat.pow_succ]; omega
  have := h.countLe
  exact h.wfs.exists_free s.count (fun i hi => hi.2) (by have := two_pow_pos s.exp; omega)

/-- `cmi_hash_find_index` returns the heap index of a live key and 0 for any other key: the first key match on
    the probe path is the live slot, never a stale tombstone of an earlier incarnation of the key -/
theorem findIndex_correct {s : HH} (h : WF lt s) (k : Nat) :
    (k ∈ keys (abs s) → ∃ i, findIndex s k = .ok i ∧ 1 ≤ i ∧ i ≤ s.count ∧ (s.tag i).key = k) ∧
    (k ∉ keys (abs s) → findIndex s k = .ok 0) := by
  constructor
  · intro hk
    obtain ⟨i, hi, rfl⟩ := (mem_keys_abs s k).1 hk
    exact ⟨i, findIndex_of_mem h hi, hi.1, hi.2, rfl⟩
  · exact fun hk => findIndex_of_not_mem h hk

theorem enqueue_refines [StrictWeak lt] [IgnoresHidx lt] {s : HH} (h : WF lt s) (it : Item) (k : Nat) (d i : Int) :
    let k' := if k = 0 then s.counter + 1 else k
    k' ≠ 0 → k' < 2 ^ 64 → k' ∉ keys (abs s) → (s.count < 2 ^ s.exp ∨ s.exp < 31) →
    ∃ s', enqueue lt s it k d i = .ok (s', k') ∧ WF lt s' ∧
      (abs s').Perm (KPQ.insert (abs s) ⟨k', 0, it, d, i⟩) ∧ s'.counter = s.counter + 1 := by
  intro k' h0 h64 hf hroom
  obtain ⟨s', hrun, hwf, hperm, hct, _⟩ := enqueue_abs h it k d i h0 h64 hf hroom
  exact ⟨s', hrun, hwf, hperm, hct⟩

/-- without a capacity doubling no assumption on the order beyond strict weak is needed -/
theorem enqueue_refines_no_growth [StrictWeak lt] {s : HH} (h : WF lt s) (it : Item) (k : Nat) (d i : Int) :
    let k' := if k = 0 then s.counter + 1 else k
    k' ≠ 0 → k' < 2 ^ 64 → k' ∉ keys (abs s) → s.count < 2 ^ s.exp →
    ∃ s', enqueue lt s it k d i = .ok (s', k') ∧ WF lt s' ∧
      (abs s').Perm (KPQ.insert (abs s) ⟨k', 0, it, d, i⟩) ∧ s'.counter = s.counter + 1 ∧ s'.exp = s.exp := by
  intro k' h0 h64 hf hroom
  have hg := growOK_of_room h hroom
  obtain ⟨s', hrun, hwf, hperm, hct, _, hexp, hc⟩ := enqueue_abs_of_grow h it k d i h0 h64 hf hg
  refine ⟨s', hrun, hwf, hperm, hct, ?_⟩
  -- the exponent is unchanged: read it off the run
  have hne : s.count ≠ 2 ^ s.exp := by omega
  rw [enqueue_eq, if_neg (by have := h.countLe; omega), if_neg hne] at hrun
  obtain ⟨p, s2, hrun2, _, _, he2, _⟩ := enqueueCore_spec h hroom it k d i k' rfl h0 h64
    (fun j hj he => hf ((mem_keys_abs s k').2 ⟨j, hj, he⟩))
  have : (Except.ok (s2, k') : Except Fault (HH × Nat)) = .ok (s', k') := by
    rw [← hrun2]; exact hrun
  injection this with this
  injection this with this
  subst this
  exact he2

theorem dequeue_refines [StrictWeak lt] [IgnoresHidx lt] {s : HH} (h : WF lt s) (hpos : 0 < s.count) :
    ∃ s' e, dequeue lt s = .ok (s', some e) ∧ WF lt s' ∧ IsMin lt (abs s) (norm e) ∧
      (abs s).Perm (norm e :: abs s') := by
  obtain ⟨s', hrun, hwf, hperm, _⟩ := dequeue_abs h hpos
  exact ⟨s', s.tag 1, hrun, hwf, root_isMin_abs h hpos, hperm⟩

/-- the same for an arbitrary strict weak order, minimality stated on the tags as stored -/
theorem dequeue_refines_raw [StrictWeak lt] {s : HH} (h : WF lt s) (hpos : 0 < s.count) :
    ∃ s' e, dequeue lt s = .ok (s', some e) ∧ WF lt s' ∧ IsMin lt (liveTags s) e ∧
      (abs s).Perm (norm e :: abs s') := by
  obtain ⟨s', hrun, hwf, hperm, _⟩ := dequeue_abs h hpos
  exact ⟨s', s.tag 1, hrun, hwf, root_isMin h hpos, hperm⟩

theorem dequeue_empty (s : HH) (h0 : s.count = 0) : dequeue lt s = .ok (s, none) := by
  simp [dequeue, h0]

theorem peek_correct [StrictWeak lt] [IgnoresHidx lt] {s : HH} (h : WF lt s) (hpos : 0 < s.count) :
    ∃ t, peek s = .ok (some t) ∧ IsMin lt (abs s) (norm t) :=
  ⟨s.tag 1, peek_spec h hpos, root_isMin_abs h hpos⟩

theorem peek_correct_raw [StrictWeak lt] {s : HH} (h : WF lt s) (hpos : 0 < s.count) :
    ∃ t, peek s = .ok (some t) ∧ IsMin lt (liveTags s) t :=
  ⟨s.tag 1, peek_spec h hpos, root_isMin h hpos⟩

theorem peek_empty (s : HH) (h0 : s.count = 0) : peek s = .ok none := by
  simp [peek, h0]

theorem remove_refines [StrictWeak lt] {s : HH} (h : WF lt s) (k : Nat) (hk0 : k ≠ 0) :
    ∃ s', remove lt s k = .ok (s', decide (k ∈ keys (abs s))) ∧ WF lt s' ∧
      (abs s').Perm (KPQ.remove (abs s) k) := by
  obtain ⟨s', hrun, hwf, hperm, _⟩ := remove_abs h k hk0
  exact ⟨s', hrun, hwf, hperm⟩

theorem reprio_refines [StrictWeak lt] {s : HH} (h : WF lt s) {k : Nat} (hk : k ∈ keys (abs s)) (d i : Int) :
    ∃ s', reprioritize lt s k d i = .ok s' ∧ WF lt s' ∧ (abs s').Perm (KPQ.reprio (abs s) k d i) := by
  obtain ⟨s', hrun, hwf, hperm, _⟩ := reprio_abs h hk d i
  exact ⟨s', hrun, hwf, hperm⟩

/-- a payload (and the sort keys) stay attached to their key however entries move inside the structure -/
theorem lookup_correct {s : HH} (h : WF lt s) {k : Nat} (hk : k ∈ keys (abs s)) :
    ∃ t, lookup s k = .ok t ∧ KPQ.lookup (abs s) k = some (norm t) := lookup_spec h hk

theorem isEnqueued_correct {s : HH} (h : WF lt s) (k : Nat) (hk0 : k ≠ 0) :
    isEnqueued s k = .ok (decide (k ∈ keys (abs s))) := isEnqueued_spec h k hk0

theorem patternCount_correct (s : HH) (p : Item) : patternCount s p = (matching (abs s) p).length :=
  patternCount_spec s p

/-- `pattern_find` returns 0 exactly when nothing matches, otherwise the key of a matching entry -/
theorem patternFind_correct {s : HH} (h : WF lt s) (p : Item) :
    (patternFind s p = 0 ↔ matching (abs s) p = []) ∧
    (patternFind s p ≠ 0 → ∃ t, t ∈ matching (abs s) p ∧ t.key = patternFind s p) := patternFind_spec h p

theorem patternCancel_refines [StrictWeak lt] {s : HH} (h : WF lt s) (p : Item) :
    ∃ s', patternCancel lt s p = .ok (s', (matching (abs s) p).length) ∧ WF lt s' ∧
      (abs s').Perm (removeMatching (abs s) p) := by
  obtain ⟨s', hrun, hwf, hperm, _⟩ := patternCancel_abs h p
  exact ⟨s', hrun, hwf, hperm⟩

theorem clear_refines {s : HH} (h : WF lt s) : WF lt (clear s) ∧ abs (clear s) = [] ∧ (clear s).counter = s.counter :=
  ⟨(clear_spec h).1, (clear_spec h).2.1, (clear_spec h).2.2.1⟩

theorem reset_refines {s : HH} (h : WF lt s) :
    ∃ s', reset s = .ok s' ∧ WF lt s' ∧ abs s' = [] ∧ s'.counter = s.counter := by
  obtain ⟨s', hrun, hwf, habs, hct, _⟩ := reset_spec h
  exact ⟨s', hrun, hwf, habs, hct⟩

/-- any operation sequence whose operations meet their documented preconditions keeps the state well-formed
    and never faults (no out-of-bounds access, no library abort, `hash_find_slot` terminates), across any
    number of capacity doublings -/
theorem run_preserves_WF [StrictWeak lt] [IgnoresHidx lt] {s : HH} (h : WF lt s) (ops : List Op)
    (hpre : PreAll lt s ops) : ∃ s', run lt s ops = .ok s' ∧ WF lt s' := run_WF ops h hpre

theorem reachable_WF [StrictWeak lt] [IgnoresHidx lt] (e : Nat) (h1 : 1 ≤ e) (h31 : e ≤ 31) (ops : List Op) :
    ∃ s0, init e = .ok s0 ∧ (PreAll lt s0 ops → ∃ s', run lt s0 ops = .ok s' ∧ WF lt s') := by
  obtain ⟨s0, hinit, hwf, _⟩ := init_spec (lt := lt) e h1 h31
  exact ⟨s0, hinit, fun hpre => run_WF ops hwf hpre⟩

/-- one operation with its observable result is a step of the keyed-priority-queue specification `SpecStep`
    (HashHeap/RefineTrace.lean) on the abstraction -/
theorem op_refines_spec [StrictWeak lt] [IgnoresHidx lt] {s : HH} (h : WF lt s) (op : Op) (hpre : OpPre s op) :
    ∃ s' r, stepR lt s op = .ok (s', r) ∧ WF lt s' ∧ SpecStep lt (abs s, s.counter) op r (abs s', s'.counter) :=
  step_refines h op hpre

/-- C02 for whole histories: from any initial exponent, every operation sequence whose operations meet their
    preconditions runs without fault, and the observable results (keys issued, tags dequeued / peeked / looked up
    without their internal back-pointer, removal and membership answers, pattern counts and finds) form a run of
    the specification started from the empty queue -/
theorem history_refines_spec [StrictWeak lt] [IgnoresHidx lt] (e : Nat) (h1 : 1 ≤ e) (h31 : e ≤ 31) (ops : List Op) :
    ∃ s0, init e = .ok s0 ∧ (PreAll lt s0 ops →
      ∃ s' rs, runR lt s0 ops = .ok (s', rs) ∧ WF lt s' ∧ SpecRun lt ([], 0) ops rs (abs s', s'.counter)) := by
  obtain ⟨s0, hinit, hwf, habs, hct, _⟩ := init_spec (lt := lt) e h1 h31
  refine ⟨s0, hinit, fun hpre => ?_⟩
  obtain ⟨s', rs, hrun, hwf', hspec⟩ := run_refines ops hwf hpre
  rw [habs, hct] at hspec
  exact ⟨s', rs, hrun, hwf', hspec⟩

/-- the specification does not depend on the order in which the abstract queue lists its entries: whatever is
    possible from `q` is possible, with the same result and a permutation of the same successor, from every
    permutation of `q` -/
theorem spec_perm_invariant {q1 q2 : KPQ} {c : Nat} {op : Op} {r : Res} {y : KPQ × Nat}
    (hp : q1.Perm q2) (hnd : (keys q1).Nodup) (h : SpecStep lt (q1, c) op r y) :
    ∃ q', SpecStep lt (q2, c) op r (q', y.2) ∧ q'.Perm y.1 := SpecStep.perm_left hp hnd h

/-! #### a payload stays attached to its key: what a lookup by key reports after each updating operation -/

theorem payload_sticks_enqueue [StrictWeak lt] [IgnoresHidx lt] {s : HH} (h : WF lt s) (it : Item) (k : Nat) (d i : Int) :
    let k' := if k = 0 then s.counter + 1 else k
    k' ≠ 0 → k' < 2 ^ 64 → k' ∉ keys (abs s) → (s.count < 2 ^ s.exp ∨ s.exp < 31) →
    ∃ s', enqueue lt s it k d i = .ok (s', k') ∧
      KPQ.lookup (abs s') k' = some ⟨k', 0, it, d, i⟩ ∧
      ∀ k2, k2 ≠ k' → KPQ.lookup (abs s') k2 = KPQ.lookup (abs s) k2 := by
  intro k' h0 h64 hf hroom
  obtain ⟨s', hrun, hwf, hperm, _⟩ := enqueue_abs h it k d i h0 h64 hf hroom
  exact ⟨s', hrun, lookup_after_insert h hwf ⟨k', 0, it, d, i⟩ hperm⟩

theorem payload_sticks_remove [StrictWeak lt] {s : HH} (h : WF lt s) (k : Nat) (hk0 : k ≠ 0) :
    ∃ s' b, remove lt s k = .ok (s', b) ∧ KPQ.lookup (abs s') k = none ∧
      ∀ k2, k2 ≠ k → KPQ.lookup (abs s') k2 = KPQ.lookup (abs s) k2 := by
  obtain ⟨s', hrun, hwf, hperm, _⟩ := remove_abs h k hk0
  exact ⟨s', _, hrun, lookup_after_remove h hwf k hperm⟩

theorem payload_sticks_reprio [StrictWeak lt] {s : HH} (h : WF lt s) {k : Nat} (hk : k ∈ keys (abs s)) (d i : Int) :
    ∃ s', reprioritize lt s k d i = .ok s' ∧
      KPQ.lookup (abs s') k = (KPQ.lookup (abs s) k).map (fun t => { t with d := d, i := i }) ∧
      ∀ k2, k2 ≠ k → KPQ.lookup (abs s') k2 = KPQ.lookup (abs s) k2 := by
  obtain ⟨s', hrun, hwf, hperm, _⟩ := reprio_abs h hk d i
  exact ⟨s', hrun, lookup_after_reprio h hwf k d i hperm⟩

theorem payload_sticks_dequeue [StrictWeak lt] {s : HH} (h : WF lt s) (hpos : 0 < s.count) :
    ∃ s' e, dequeue lt s = .ok (s', some e) ∧ KPQ.lookup (abs s) e.key = some (norm e) ∧
      KPQ.lookup (abs s') e.key = none ∧
      ∀ k, k ≠ e.key → KPQ.lookup (abs s') k = KPQ.lookup (abs s) k := by
  obtain ⟨s', hrun, hwf, hperm, _⟩ := dequeue_abs h hpos
  refine ⟨s', s.tag 1, hrun, ?_, lookup_after_dequeue h hwf (norm (s.tag 1)) hperm⟩
  rw [lookup_eq_some_iff h.keys_nodup]
  exact ⟨hperm.mem_iff.2 List.mem_cons_self, rfl⟩

/-- the concrete accessor agrees: if the abstract lookup of a live key is unchanged between two well-formed
    states, `lookup` (the common part of `cmi_hashheap_item/dkey/ikey`) returns the same payload and sort keys -/
theorem payload_sticks_concrete {s s' : HH} (h : WF lt s) (h' : WF lt s') {k : Nat} (hk : k ∈ keys (abs s))
    (heq : KPQ.lookup (abs s') k = KPQ.lookup (abs s) k) :
    ∃ t t', lookup s k = .ok t ∧ lookup s' k = .ok t' ∧ norm t' = norm t := by
  obtain ⟨t, hrun, hl⟩ := lookup_spec h hk
  have hk' : k ∈ keys (abs s') := by
    apply Classical.byContradiction
    intro hn
    rw [(lookup_eq_none_iff _ _).2 hn, hl] at heq
    cases heq
  obtain ⟨t', hrun', hl'⟩ := lookup_spec h' hk'
  refine ⟨t, t', hrun, hrun', ?_⟩
  rw [hl, hl'] at heq
  exact Option.some.inj heq

/-! #### automatically issued keys, re-insertion after removal, uniqueness of the minimum -/

/-- as long as no live key is above the item counter (callers pass key 0, or keys not above the next automatic
    one), the freshness precondition of `enqueue` holds by itself for key 0, and the invariant is kept -/
theorem auto_key_enqueue_refines [StrictWeak lt] [IgnoresHidx lt] {s : HH} (h : WF lt s) (hkb : KeysBelowCounter s)
    (it : Item) (d i : Int) (hctr : s.counter + 1 < 2 ^ 64) (hroom : s.count < 2 ^ s.exp ∨ s.exp < 31) :
    ∃ s', enqueue lt s it 0 d i = .ok (s', s.counter + 1) ∧ WF lt s' ∧
      (abs s').Perm (KPQ.insert (abs s) ⟨s.counter + 1, 0, it, d, i⟩) ∧ KeysBelowCounter s' := by
  obtain ⟨s', hrun, hwf, hperm, _, hkb', _⟩ :=
    auto_enqueue h hkb it 0 d i (Nat.zero_le _) hctr (fun h0 => absurd rfl h0) hroom
  exact ⟨s', hrun, hwf, hperm, hkb'⟩

/-- a key removed from the queue can be enqueued again (its tombstone is still in the hash map): the new entry
    is found, the old payload is gone -/
theorem reinsert_after_remove [StrictWeak lt] {s : HH} (h : WF lt s) {k : Nat} (hk : k ∈ keys (abs s))
    (it : Item) (d i : Int) :
    ∃ s1 s2, remove lt s k = .ok (s1, true) ∧ enqueue lt s1 it k d i = .ok (s2, k) ∧ WF lt s2 ∧
      (abs s2).Perm (KPQ.insert (KPQ.remove (abs s) k) ⟨k, 0, it, d, i⟩) ∧
      KPQ.lookup (abs s2) k = some ⟨k, 0, it, d, i⟩ := by
  obtain ⟨hk0, hk64⟩ := h.keys_ne_zero hk
  obtain ⟨s1, hrun1, hwf1, hperm1, hexp1, _, _, hc1⟩ := remove_abs h k hk0
  have hnot : k ∉ keys (abs s1) := by
    intro hm
    rw [keys_perm hperm1] at hm
    obtain ⟨x, hx, hxk⟩ := List.mem_map.1 hm
    exact of_decide_eq_true (List.mem_filter.1 hx).2 hxk
  have hpos : 0 < s.count := by
    obtain ⟨j, hj, _⟩ := (mem_keys_abs s k).1 hk
    have := hj.1; have := hj.2; omega
  have hroom : s1.count < 2 ^ s1.exp := by
    rw [hc1, if_pos hk, hexp1]; have := h.countLe; omega
  have hk' : (if k = 0 then s1.counter + 1 else k) = k := if_neg hk0
  obtain ⟨s2, hrun2, hwf2, hperm2, _⟩ := enqueue_abs_of_grow hwf1 it k d i (by rw [hk']; exact hk0)
    (by rw [hk']; exact hk64) (by rw [hk']; exact hnot) (growOK_of_room hwf1 hroom)
  rw [hk'] at hrun2 hperm2
  refine ⟨s1, s2, by rw [hrun1]; simp [hk], hrun2, hwf2, ?_, (lookup_after_insert hwf1 hwf2 _ hperm2).1⟩
  exact hperm2.trans (List.Perm.cons _ hperm1)

/-- with an ordering that is total on distinct keys (the event queue, the waiting lists, the holder list and the
    object priority queue all have one) the entry returned by `dequeue` goes strictly before every other entry -/
theorem dequeue_strict_min [TotalOnKeys lt] [IgnoresHidx lt] {s : HH} (h : WF lt s) (hpos : 0 < s.count) :
    ∃ s' e, dequeue lt s = .ok (s', some e) ∧ WF lt s' ∧ (abs s).Perm (norm e :: abs s') ∧
      ∀ x, x ∈ abs s' → lt (norm e) x = true := by
  obtain ⟨s', hrun, hwf, hperm, _⟩ := dequeue_abs h hpos
  refine ⟨s', s.tag 1, hrun, hwf, hperm, ?_⟩
  intro x hx
  have hmin := root_isMin_abs h hpos
  have hxs : x ∈ abs s := hperm.mem_iff.2 (List.mem_cons_of_mem _ hx)
  have hnd : (norm (s.tag 1) :: abs s').Nodup := hperm.nodup_iff.1 h.abs_nodup
  have hne : x ≠ norm (s.tag 1) := fun he => (List.nodup_cons.1 hnd).1 (he ▸ hx)
  have hk : (norm (s.tag 1)).key ≠ x.key := fun hk => hne (eq_of_key_eq h.keys_nodup hxs hmin.1 hk.symm)
  rcases TotalOnKeys.total (lt := lt) _ _ hk with hlt | hlt
  · exact hlt
  · rw [hmin.2 x hxs] at hlt; cases hlt

/-- … and is therefore the only entry `dequeue` / `peek` may return -/
theorem min_unique [TotalOnKeys lt] {s : HH} (h : WF lt s) {e e' : HTag}
    (he : IsMin lt (abs s) e) (he' : IsMin lt (abs s) e') : e = e' := isMin_unique h.keys_nodup he he'

end refinement

/-! ### the hypotheses are satisfiable -/

/-- a well-formed non-empty state exists (built by the theorems themselves), so the hypotheses `WF lt s`,
    `0 < s.count`, `k ∈ keys (abs s)` of the theorems above are satisfiable -/
example : ∃ s : HH, WF default_order_check s ∧ 0 < s.count ∧ 5 ∈ keys (abs s) := by
  obtain ⟨s0, _, hwf0, habs0, _, hexp, _⟩ := init_spec (lt := default_order_check) 1 (by decide) (by decide)
  have hc0 : s0.count = 0 := by rw [← abs_length, habs0]; rfl
  obtain ⟨s1, _, hwf1, hperm, _⟩ := enqueue_refines hwf0 {} 5 0 0 (by simp) (by simp)
    (by rw [habs0]; simp [keys]) (Or.inl (by rw [hc0]; exact two_pow_pos _))
  refine ⟨s1, hwf1, ?_, ?_⟩
  · rw [← abs_length, hperm.length_eq]; simp [KPQ.insert]
  · have : (⟨5, 0, {}, 0, 0⟩ : HTag) ∈ abs s1 := hperm.mem_iff.2 (by simp [KPQ.insert, norm])
    exact List.mem_map.2 ⟨_, this, rfl⟩

/-- the precondition of a whole run is satisfiable: enqueue (auto key 1), reprioritize it, remove it, dequeue
    on a fresh heap -/
example : ∃ s0, init 1 = .ok s0 ∧
    PreAll default_order_check s0 [.enqueue {} 0 3 0, .reprio 1 5 0, .remove 1, .dequeue] := by
  obtain ⟨s0, hinit, hwf0, habs0, hct0, hexp, _⟩ := init_spec (lt := default_order_check) 1 (by decide) (by decide)
  have hc0 : s0.count = 0 := by rw [← abs_length, habs0]; rfl
  have hpre : OpPre s0 (.enqueue {} 0 3 0) := by
    simp only [OpPre, hct0, habs0]
    exact ⟨by decide, by decide, by simp [keys], Or.inl (by rw [hc0]; exact two_pow_pos _)⟩
  refine ⟨s0, hinit, hpre, ?_⟩
  intro s1 h1
  obtain ⟨s', hrun, _, hperm, _⟩ := enqueue_refines hwf0 {} 0 3 0 hpre.1 hpre.2.1 hpre.2.2.1 hpre.2.2.2
  have hs1 : s' = s1 := by simpa [step, hrun] using h1
  subst hs1
  refine ⟨?_, fun _ _ => ⟨(by decide : (1 : Nat) ≠ 0), fun _ _ => ⟨trivial, fun _ _ => trivial⟩⟩⟩
  have : (⟨1, 0, {}, 3, 0⟩ : HTag) ∈ abs s' := hperm.mem_iff.2 (by simp [KPQ.insert, norm, hct0])
  exact List.mem_map.2 ⟨_, this, rfl⟩

/-- a well-formed state that has gone through a capacity doubling exists: three automatic-key enqueues into a
    heap created with capacity 2 -/
example : ∃ s : HH, WF default_order_check s ∧ s.expInit = 1 ∧ 2 ≤ s.exp ∧ s.count = 3 := by
  obtain ⟨s0, _, hwf0, habs0, hct0, hexp0, hei0⟩ := init_spec (lt := default_order_check) 1 (by decide) (by decide)
  have hc0 : s0.count = 0 := by rw [← abs_length, habs0]; rfl
  have hkb0 : KeysBelowCounter s0 := by intro k hk; rw [habs0] at hk; cases hk
  have room : ∀ s : HH, WF default_order_check s → s.count ≤ 3 → s.count < 2 ^ s.exp ∨ s.exp < 31 := by
    intro s hs hc
    by_cases he : s.exp < 31
    · exact Or.inr he
    · left
      have : 2 ^ 31 ≤ 2 ^ s.exp := Nat.pow_le_pow_right (by decide) (by omega)
      omega
  obtain ⟨s1, _, hwf1, _, hct1, hkb1, hc1, hei1⟩ := auto_enqueue hwf0 hkb0 {} 0 3 0 (Nat.zero_le _)
    (by rw [hct0]; decide) (fun h => absurd rfl h) (room s0 hwf0 (by omega))
  obtain ⟨s2, _, hwf2, _, hct2, hkb2, hc2, hei2⟩ := auto_enqueue hwf1 hkb1 {} 0 1 0 (Nat.zero_le _)
    (by rw [hct1, hct0]; decide) (fun h => absurd rfl h) (room s1 hwf1 (by omega))
  obtain ⟨s3, _, hwf3, _, hct3, hkb3, hc3, hei3⟩ := auto_enqueue hwf2 hkb2 {} 0 2 0 (Nat.zero_le _)
    (by rw [hct2, hct1, hct0]; decide) (fun h => absurd rfl h) (room s2 hwf2 (by omega))
  refine ⟨s3, hwf3, by rw [hei3, hei2, hei1, hei0], ?_, by omega⟩
  have hle := hwf3.countLe
  have : s3.count = 3 := by omega
  rw [this] at hle
  apply Classical.byContradiction
  intro hlt
  have : s3.exp ≤ 1 := by omega
  have : 2 ^ s3.exp ≤ 2 ^ 1 := Nat.pow_le_pow_right (by decide) this
  omega

end CimbaModel.Props.C02
