/-
  The abstract specification every hashheap has to refine (DESIGN.md §3.1): a keyed priority
  queue = a list of entries with pairwise distinct non-zero keys.  Entries reuse `HTag`
  (the `hidx` back-pointer is irrelevant at this level and kept 0).
-/
import CimbaModel.HashHeap.Model

namespace CimbaModel.KPQ
open CimbaModel.HashHeap

abbrev KPQ := List HTag

/-- forget the hash back-pointer -/
def norm (t : HTag) : HTag := { t with hidx := 0 }

def keys (q : KPQ) : List Nat := q.map (·.key)

def lookup (q : KPQ) (k : Nat) : Option HTag := q.find? (·.key = k)

def insert (q : KPQ) (t : HTag) : KPQ := norm t :: q

def remove (q : KPQ) (k : Nat) : KPQ := q.filter (·.key ≠ k)

def reprio (q : KPQ) (k : Nat) (d i : Int) : KPQ :=
  q.map fun t => if t.key = k then { t with d := d, i := i } else t

/-- `e` may be returned by peek/dequeue: it is an entry and nothing goes strictly before it -/
def IsMin (lt : Order) (q : KPQ) (e : HTag) : Prop := e ∈ q ∧ ∀ x ∈ q, lt x e = false

instance (lt : Order) (q : KPQ) (e : HTag) : Decidable (IsMin lt q e) := by
  unfold IsMin; infer_instance

def matching (q : KPQ) (p : Item) : KPQ := q.filter (itemMatch · p)

def removeMatching (q : KPQ) (p : Item) : KPQ := q.filter (fun t => !itemMatch t p)

end CimbaModel.KPQ
