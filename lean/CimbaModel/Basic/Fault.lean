/-
  Faults: the ways a modelled library routine can go wrong. Every array access of the
  concrete models goes through a bounds-checked accessor and every `cmb_assert_release`
  of the C code is a `Fault.assert`, so "no out-of-bounds access and no library abort"
  is the statement `∃ s', op s = .ok s'`.
-/
namespace CimbaModel

inductive Fault where
  | heapOob (i : Nat)      -- heap[i] outside the allocated heap array
  | hashOob (i : Nat)      -- hash_map[i] outside the allocated hash array
  | noFreeSlot             -- hash_find_slot would loop forever
  | assert (line : Nat)    -- a cmb_assert_release fired (line = a stable tag, not a source line)
  | growLimit              -- heap_size >= UINT32_MAX/2
  deriving Repr, DecidableEq, Inhabited

def Fault.toString : Fault → String
  | .heapOob i => s!"heap-oob {i}"
  | .hashOob i => s!"hash-oob {i}"
  | .noFreeSlot => "no-free-slot"
  | .assert n => s!"assert {n}"
  | .growLimit => "grow-limit"

instance : ToString Fault := ⟨Fault.toString⟩

end CimbaModel
