/-
  Order axioms for heap comparison functions (DESIGN.md §3.1).
  `lt a b = true` reads "a goes before b".
-/
import CimbaModel.HashHeap.Model

namespace CimbaModel
open CimbaModel.HashHeap

/-- strict weak order: irreflexive, transitive, and incomparability is transitive
    (stated as negative transitivity) -/
class StrictWeak (lt : Order) : Prop where
  irrefl : ∀ a, lt a a = false
  trans : ∀ a b c, lt a b = true → lt b c = true → lt a c = true
  negTrans : ∀ a b c, lt a b = false → lt b c = false → lt a c = false

/-- additionally total on tags with distinct keys: the minimum of a keyed queue is unique -/
class TotalOnKeys (lt : Order) : Prop extends StrictWeak lt where
  total : ∀ a b, a.key ≠ b.key → lt a b = true ∨ lt b a = true

theorem StrictWeak.asymm {lt : Order} [h : StrictWeak lt] (a b : HTag) (hab : lt a b = true) : lt b a = false := by
  cases hba : lt b a with
  | false => rfl
  | true =>
    have := h.trans a b a hab hba
    rw [h.irrefl a] at this
    exact absurd this (by simp)

/-- the result depends only on (key, d, i): payload and back-pointer are irrelevant -/
def SortKeysOnly (lt : Order) : Prop :=
  ∀ a b a' b', a.key = a'.key → a.d = a'.d → a.i = a'.i → b.key = b'.key → b.d = b'.d → b.i = b'.i →
    lt a b = lt a' b'

/-- the comparison does not look at the hash back-pointer (`hash_index`) of a heap tag.
    Every ordering function of the library has this property (it is implied by `SortKeysOnly`); without it
    a capacity doubling, which re-homes every entry in the hash map, could invalidate the heap order. -/
class IgnoresHidx (lt : Order) : Prop where
  eq : ∀ (a b : HTag) (h h' : Nat), lt { a with hidx := h } { b with hidx := h' } = lt a b

theorem SortKeysOnly.ignoresHidx {lt : Order} (h : SortKeysOnly lt) : IgnoresHidx lt :=
  ⟨fun a b _ _ => h _ _ a b rfl rfl rfl rfl rfl rfl⟩

end CimbaModel
