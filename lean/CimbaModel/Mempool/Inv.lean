/-
  The invariant of the memory-pool model and its preservation by initialise / expand / alloc / free / user stores.
-/
import CimbaModel.Mempool.Mem

namespace CimbaModel.Mempool

/-- what the code asserts about its environment (`cmi_aligned_alloc`) and `CHUNK_LIST_SIZE > 0` -/
structure CfgOK (cfg : Cfg) : Prop where
  pageBig : 8 < cfg.page
  page8 : cfg.page % 8 = 0
  pagePow : isPow2 cfg.page = true
  clsPos : 0 < cfg.cls

/-- `a` is the first word of one of the `incr_num` objects of an existing chunk -/
def ValidObj (s : MP) (a : Addr) : Prop :=
  a.1 < s.mem.size ∧ ∃ k, k < s.incrNum ∧ a.2 = k * (s.objSz / 8)

/-- The invariant of an initialised pool.  `fl` = the free list as threaded through memory (top first),
    `live` = the objects currently held by the client. -/
structure Inv (cfg : Cfg) (s : MP) (fl live : List Addr) : Prop where
  cookie : s.cookie = .init
  sz8 : s.objSz % 8 = 0
  szPos : 0 < s.objSz
  numPos : 0 < s.incrNum
  fits : s.incrNum * s.objSz ≤ s.incrSz
  isz : s.incrSz % cfg.page = 0
  /-- the pool holds the valid handle of its chunk list -/
  lptr : s.chunkList = s.blkLive
  lsome : s.blkLive ≠ none
  /-- handles are handed out in increasing order: the next one is fresh -/
  lfresh : ∀ h, s.blkLive = some h → h < s.blkNext
  /-- the block is large enough for `chunk_list_len` entries -/
  lcap : s.listLen ≤ s.blkData.size
  cntLt : s.listCnt < s.listLen
  cntMem : s.listCnt = s.mem.size
  /-- `chunk_list[i]` is the i-th chunk -/
  ldata : ∀ i, i < s.listCnt → s.blkData.getD i none = some i
  rows : ∀ c, c < s.mem.size → s.mem.row c = s.incrSz / 8
  chain : Chain s.mem s.nextObj fl
  flNodup : fl.Nodup
  liveNodup : live.Nodup
  disj : ∀ a, a ∈ fl → a ∉ live
  /-- free list and live set together are exactly the object slots of all chunks -/
  part : ∀ a, (a ∈ fl ∨ a ∈ live) ↔ ValidObj s a

/-- a `CMI_MEMPOOL_STATIC_INIT` pool before its first use -/
structure Pre (s : MP) : Prop where
  cookie : s.cookie = .threadStatic
  sz8 : s.objSz % 8 = 0
  szPos : 0 < s.objSz
  numPos : 0 < s.incrNum
  next : s.nextObj = none
  mem : s.mem = #[]

/-! ### arithmetic -/

theorem slots_fit {n sz isz : Nat} (h8 : sz % 8 = 0) (hf : n * sz ≤ isz) : n * (sz / 8) ≤ isz / 8 := by
  have e : 8 * (sz / 8) = sz := by omega
  rw [Nat.le_div_iff_mul_le (by omega)]
  calc n * (sz / 8) * 8 = n * (8 * (sz / 8)) := by rw [Nat.mul_assoc, Nat.mul_comm (sz / 8) 8]
    _ = n * sz := by rw [e]
    _ ≤ isz := hf

theorem slot_lt {k n u j W : Nat} (hk : k < n) (hj : j < u) (hfit : n * u ≤ W) : k * u + j < W := by
  have := Nat.mul_le_mul_right u (Nat.succ_le_of_lt hk)
  rw [Nat.succ_mul] at this
  omega

theorem slot_inj {k k' u j j' : Nat} (hj : j < u) (hj' : j' < u) (h : k * u + j = k' * u + j') :
    k = k' ∧ j = j' := by
  rcases Nat.lt_trichotomy k k' with hlt | heq | hgt
  · have := Nat.mul_le_mul_right u (Nat.succ_le_of_lt hlt)
    rw [Nat.succ_mul] at this
    omega
  · subst heq; omega
  · have := Nat.mul_le_mul_right u (Nat.succ_le_of_lt hgt)
    rw [Nat.succ_mul] at this
    omega

theorem round_up_ge (t p : Nat) (hp : 0 < p) : t ≤ ((t + p - 1) / p) * p := by
  have h1 := Nat.div_add_mod (t + p - 1) p
  have h2 := Nat.mod_lt (t + p - 1) hp
  rw [Nat.mul_comm]
  omega

/-- words per object are positive -/
theorem Inv.uPos {cfg s fl live} (h : Inv cfg s fl live) : 0 < s.objSz / 8 := by
  have := h.sz8; have := h.szPos; omega

theorem Inv.wordsFit {cfg s fl live} (h : Inv cfg s fl live) : s.incrNum * (s.objSz / 8) ≤ s.incrSz / 8 :=
  slots_fit h.sz8 h.fits

/-- every word of a valid object lies inside its chunk -/
theorem Inv.inBounds {cfg s fl live} (h : Inv cfg s fl live) {a : Addr} (ha : ValidObj s a) {j : Nat}
    (hj : j < s.objSz / 8) : a.1 < s.mem.size ∧ a.2 + j < s.mem.row a.1 := by
  obtain ⟨hc, k, hk, hw⟩ := ha
  refine ⟨hc, ?_⟩
  rw [h.rows _ hc, hw]
  exact slot_lt hk hj h.wordsFit

/-- words of two valid objects coincide only if it is the same word of the same object -/
theorem ValidObj.word_inj {s : MP} {a b : Addr} (ha : ValidObj s a) (hb : ValidObj s b) {j j' : Nat}
    (hj : j < s.objSz / 8) (hj' : j' < s.objSz / 8) (h1 : a.1 = b.1) (h2 : a.2 + j = b.2 + j') : a = b ∧ j = j' := by
  obtain ⟨_, k, _, hw⟩ := ha
  obtain ⟨_, k', _, hw'⟩ := hb
  rw [hw, hw'] at h2
  obtain ⟨e1, e2⟩ := slot_inj hj hj' h2
  refine ⟨Prod.ext h1 ?_, e2⟩
  rw [hw, hw', e1]

/-! ### cmi_mempool_initialize -/

theorem initPool_inv {cfg : Cfg} {s : MP} {sz num : Nat} (hcfg : CfgOK cfg) (h8 : sz % 8 = 0) (hsz : 0 < sz)
    (hnum : 0 < num) (hmem : s.mem = #[]) :
    ∃ s', initPool cfg s sz num = .ok s' ∧ Inv cfg s' [] [] := by
  have hn : ¬ num = 0 := by omega
  have hs : ¬ sz = 0 := by omega
  have hp : 0 < cfg.page := by have := hcfg.pageBig; omega
  have hge := round_up_ge (num * sz) cfg.page hp
  have hle : sz ≤ num * sz := Nat.le_mul_of_pos_left sz hnum
  refine ⟨_, by simp only [initPool, h8, hn, hs, mallocList]; rfl, ?_⟩
  exact {
    cookie := rfl, sz8 := h8, szPos := hsz
    numPos := Nat.div_pos (Nat.le_trans hle hge) hsz
    fits := Nat.div_mul_le_self _ _
    isz := Nat.mul_mod_left _ _
    lptr := rfl
    lsome := by simp
    lfresh := fun h e => by simp only [Option.some.injEq] at e; show h < s.blkNext + 1; omega
    lcap := by simp
    cntLt := hcfg.clsPos
    cntMem := by simp [hmem]
    ldata := fun i hi => by simp at hi
    rows := fun c hc => by simp [hmem] at hc
    chain := rfl
    flNodup := by simp
    liveNodup := by simp
    disj := by simp
    part := fun a => by simp [ValidObj, hmem] }

end CimbaModel.Mempool
