/-
  Concrete model of src/cmi_mempool.c + the inline functions of src/cmi_mempool.h, statement by
  statement (DESIGN.md §4 C20).  Core Lean only: this file is linked into the compiled driver.

  What is modelled
  * `struct cmi_mempool`: cookie, obj_sz, incr_num, incr_sz, chunk_list_len, chunk_list_cnt,
    chunk_list (a *handle* of a malloc'ed block, `none` = NULL), next_obj (`none` = NULL).
  * the part of the C heap the pool touches:
      - the chunk-list block: `blkLive` = the handle that is valid right now, `blkData` = its
        pointer-sized entries (`size` = byte size / 8).  `realloc` is abstract: it always hands out
        a NEW handle and kills the old one ("may move; the result must be used"), the new block
        has exactly `bytes / 8` entries ("the byte size must cover the new count").  Every access
        through `mp->chunk_list` is checked against the valid handle and the block size, so code
        that drops realloc's result or undersizes the block ends in a `Fault`.
      - the chunks: `mem[c]` = the 8-byte words of chunk `c` (chunk ids = order of the
        `aligned_alloc` calls, `incr_sz / 8` words each).  An address is `(chunk, word index)`;
        its byte address is `base c + 8 * w` with `base c` page aligned (`Props/C20.lean`).
      - a word is junk (never written), a free-list link written by the allocator, or user data.
  * the free list is *in memory*, threaded through the first word of the free objects exactly as
    the C code does it; `alloc` follows the link it reads.

  Not modelled: `size_t`/`unsigned` wrap-around (sizes are `Nat`), `malloc` failure,
  `cmi_mempool_terminate/destroy/cleanup` (the property ends when the pool ends), the
  `static_pools` registration list of the thread-local pools (it does not touch pool objects).
-/
namespace CimbaModel.Mempool

inductive Fault where
  | assert (tag : Nat)    -- a cmb_assert_release fired (tag = stable number, see the code below)
  | divZero               -- incr_sz / obj_sz with obj_sz = 0
  | listNull              -- chunk_list used while NULL
  | listStale             -- chunk_list used after realloc without taking realloc's result
  | listOob (i : Nat)     -- chunk_list[i] outside the block
  | objOob (c w : Nat)    -- object word outside every chunk
  | nullObj               -- next_obj == NULL dereferenced
  | badLink (c w : Nat)   -- alloc read something that is not a free-list link
  deriving Repr, DecidableEq, Inhabited

def Fault.toString : Fault → String
  | .assert n => s!"assert {n}"
  | .divZero => "div-zero"
  | .listNull => "list-null"
  | .listStale => "list-stale"
  | .listOob i => s!"list-oob {i}"
  | .objOob c w => s!"obj-oob {c} {w}"
  | .nullObj => "null-obj"
  | .badLink c w => s!"bad-link {c} {w}"

instance : ToString Fault := ⟨Fault.toString⟩

/-- (chunk id, index of the 8-byte word inside the chunk) -/
abbrev Addr := Nat × Nat

inductive Word where
  | junk
  | link (nx : Option Addr)
  | data (v : Nat)
  deriving Repr, DecidableEq, Inhabited

inductive Cookie where
  | zero | uninit | init | threadStatic
  deriving Repr, DecidableEq, Inhabited

/-- what the code gets from its environment: `cmi_pagesize()` and `CHUNK_LIST_SIZE` -/
structure Cfg where
  page : Nat
  cls : Nat
  deriving Repr, DecidableEq

abbrev Mem := Array (Array Word)

structure MP where
  cookie : Cookie := .zero
  objSz : Nat := 0
  incrNum : Nat := 0
  incrSz : Nat := 0
  listLen : Nat := 0
  listCnt : Nat := 0
  chunkList : Option Nat := none
  nextObj : Option Addr := none
  /- heap -/
  blkNext : Nat := 0
  blkLive : Option Nat := none
  blkData : Array (Option Nat) := #[]
  mem : Mem := #[]
  deriving Repr

/-! ### object memory, bounds-checked -/

/-- total reader used in specifications -/
def Mem.get (m : Mem) (c w : Nat) : Word := (m.getD c #[]).getD w .junk

def rdW (m : Mem) (c w : Nat) : Except Fault Word :=
  if hc : c < m.size then
    if hw : w < m[c].size then .ok m[c][w] else .error (.objOob c w)
  else .error (.objOob c w)

def wrW (m : Mem) (c w : Nat) (v : Word) : Except Fault Mem :=
  if hc : c < m.size then
    if hw : w < m[c].size then .ok (m.modify c fun row => row.setIfInBounds w v) else .error (.objOob c w)
  else .error (.objOob c w)

/-! ### libc, abstractly -/

/-- `cmi_malloc(bytes)` for the chunk list: a fresh handle, `bytes / 8` uninitialised entries -/
def mallocList (s : MP) (bytes : Nat) : MP × Nat :=
  ({ s with blkNext := s.blkNext + 1, blkLive := some s.blkNext,
            blkData := Array.replicate (bytes / 8) none }, s.blkNext)

/-- `cmi_realloc(p, bytes)`: `p` must be the valid block; the result is a NEW handle, the old one is
    dead from here on; contents are kept as far as the new size reaches. -/
def reallocList (s : MP) (p : Option Nat) (bytes : Nat) : Except Fault (MP × Nat) :=
  match p with
  | none => .error .listNull
  | some h =>
    if s.blkLive = some h then
      .ok ({ s with blkNext := s.blkNext + 1, blkLive := some s.blkNext,
                    blkData := Array.ofFn (n := bytes / 8) fun i => s.blkData.getD i.val none },
           s.blkNext)
    else .error .listStale

/-- `mp->chunk_list[i] = c` -/
def listWrite (s : MP) (i c : Nat) : Except Fault MP :=
  match s.chunkList with
  | none => .error .listNull
  | some h =>
    if s.blkLive = some h then
      if i < s.blkData.size then .ok { s with blkData := s.blkData.setIfInBounds i (some c) }
      else .error (.listOob i)
    else .error .listStale

/-- `mp->chunk_list[i]` -/
def listRead (s : MP) (i : Nat) : Except Fault (Option Nat) :=
  match s.chunkList with
  | none => .error .listNull
  | some h =>
    if s.blkLive = some h then
      if hi : i < s.blkData.size then .ok s.blkData[i] else .error (.listOob i)
    else .error .listStale

def isPow2 : Nat → Bool
  | 0 => false
  | n + 1 => (n + 1) &&& n == 0

/-- `cmi_aligned_alloc(align, sz)` with its release asserts; the new chunk gets the next id -/
def alignedAlloc (cfg : Cfg) (s : MP) (sz : Nat) : Except Fault (MP × Nat) :=
  if 8 < cfg.page ∧ cfg.page % 8 = 0 ∧ isPow2 cfg.page = true ∧ 8 < sz ∧ sz % cfg.page = 0 then
    .ok ({ s with mem := s.mem.push (Array.replicate (sz / 8) .junk) }, s.mem.size)
  else .error (.assert 6)

/-! ### cmi_mempool.c -/

/-- `cmi_mempool_create` -/
def create : MP := { cookie := .uninit }

/-- `CMI_MEMPOOL_STATIC_INIT(sz, num)` -/
def staticInit (sz num : Nat) : MP := { cookie := .threadStatic, objSz := sz, incrNum := num }

/-- `cmi_mempool_initialize` -/
def initPool (cfg : Cfg) (s : MP) (objSz objNum : Nat) : Except Fault MP :=
  if objSz % 8 ≠ 0 then .error (.assert 1)
  else if objNum = 0 then .error (.assert 2)
  else if objSz = 0 then .error .divZero
  else
    let total := objNum * objSz
    let incrSz := ((total + cfg.page - 1) / cfg.page) * cfg.page
    let s := { s with cookie := .init, objSz := objSz, incrSz := incrSz, incrNum := incrSz / objSz,
                      listLen := cfg.cls, listCnt := 0 }
    let (s, h) := mallocList s (s.listLen * 8)
    .ok { s with chunkList := some h, nextObj := none }

/-- the `for` loop of `cmi_mempool_expand` plus the final `*vp = NULL`:
    `k` iterations left, `vp` = word `w` of chunk `c`, `u` = `obj_sz / 8` -/
def threadLoop (m : Mem) (c w u : Nat) : (k : Nat) → Except Fault Mem
  | 0 => wrW m c w (.link none)
  | k + 1 => do
    let m ← wrW m c w (.link (some (c, w + u)))
    threadLoop m c (w + u) u k

/-- first part of `cmi_mempool_expand`: asserts and the first-use initialisation of a static pool -/
def expandEnter (cfg : Cfg) (s : MP) : Except Fault MP :=
  if s.nextObj ≠ none then .error (.assert 3)
  else match s.cookie with
    | .init => .ok s
    | .threadStatic => initPool cfg s s.objSz s.incrNum
    | _ => .error (.assert 4)

/-- "Expand the area list if necessary": `if (++cnt == len) { len += CHUNK_LIST_SIZE; realloc }`.
    `useResult` / `entryBytes` select between the code variants:
      fixed     `mp->chunk_list = cmi_realloc(mp->chunk_list, len * sizeof(void *))`  = (true, 8)
      shipped   `cmi_realloc(mp->chunk_list, len)`                                    = (false, 1) -/
def growList (useResult : Bool) (entryBytes : Nat) (cfg : Cfg) (s : MP) : Except Fault MP :=
  let s := { s with listCnt := s.listCnt + 1 }
  if s.listCnt = s.listLen then
    let s := { s with listLen := s.listLen + cfg.cls }
    match reallocList s s.chunkList (s.listLen * entryBytes) with
    | .error e => .error e
    | .ok (s, h) => .ok (if useResult then { s with chunkList := some h } else s)
  else .ok s

/-- rest of `cmi_mempool_expand`: new chunk, record it, thread its objects -/
def addChunk (cfg : Cfg) (s : MP) : Except Fault MP :=
  match alignedAlloc cfg s s.incrSz with
  | .error e => .error e
  | .ok (s, c) =>
    match listWrite s (s.listCnt - 1) c with
    | .error e => .error e
    | .ok s =>
      match threadLoop s.mem c 0 (s.objSz / 8) (s.incrNum - 1) with
      | .error e => .error e
      | .ok m => .ok { s with nextObj := some (c, 0), mem := m }

def expandWith (useResult : Bool) (entryBytes : Nat) (cfg : Cfg) (s : MP) : Except Fault MP :=
  match expandEnter cfg s with
  | .error e => .error e
  | .ok s =>
    match growList useResult entryBytes cfg s with
    | .error e => .error e
    | .ok s => addChunk cfg s

/-- `cmi_mempool_expand` as repaired by fixes/C20-chunk-list-realloc.patch -/
def expand : Cfg → MP → Except Fault MP := expandWith true 8

/-- `cmi_mempool_expand` as shipped: realloc's result dropped, element count passed as byte size -/
def expandDefective : Cfg → MP → Except Fault MP := expandWith false 1

/-- `cmi_mempool_alloc`, parametrised by the expand routine -/
def allocWith (ex : Cfg → MP → Except Fault MP) (cfg : Cfg) (s : MP) : Except Fault (MP × Addr) :=
  match (if s.nextObj = none then ex cfg s else .ok s) with
  | .error e => .error e
  | .ok s =>
    match s.nextObj with
    | none => .error .nullObj
    | some a =>
      match rdW s.mem a.1 a.2 with
      | .error e => .error e
      | .ok (.link nx) => .ok ({ s with nextObj := nx }, a)
      | .ok _ => .error (.badLink a.1 a.2)

def alloc : Cfg → MP → Except Fault (MP × Addr) := allocWith expand
def allocDefective : Cfg → MP → Except Fault (MP × Addr) := allocWith expandDefective

/-- `cmi_mempool_free` -/
def free (s : MP) (a : Addr) : Except Fault MP :=
  if s.cookie ≠ .init then .error (.assert 5)
  else
    match wrW s.mem a.1 a.2 (.link s.nextObj) with
    | .error e => .error e
    | .ok m => .ok { s with mem := m, nextObj := some a }

/-- a store by the owner of an object: word `j` of the object at `a` -/
def userWrite (s : MP) (a : Addr) (j v : Nat) : Except Fault MP :=
  match wrW s.mem a.1 (a.2 + j) (.data v) with
  | .error e => .error e
  | .ok m => .ok { s with mem := m }

/-! ### client programs

A client holds the objects it has been given (`live`, newest first) and remembers what it stored in
them (`shadow`).  Operations name a live object by its position; positions that do not exist and
word indices outside the object are not valid client behaviour and are skipped. -/

inductive Op where
  | alloc
  | free (i : Nat)
  | write (i j v : Nat)
  deriving Repr, DecidableEq

structure Sys where
  mp : MP
  live : List Addr := []
  shadow : Addr → Nat → Option Nat := fun _ _ => none

def updShadow (sh : Addr → Nat → Option Nat) (a : Addr) (f : Nat → Option Nat) : Addr → Nat → Option Nat :=
  fun b => if b = a then f else sh b

def stepWith (al : Cfg → MP → Except Fault (MP × Addr)) (cfg : Cfg) (s : Sys) : Op → Except Fault Sys
  | .alloc =>
    match al cfg s.mp with
    | .error e => .error e
    | .ok (mp, a) => .ok { mp := mp, live := a :: s.live, shadow := updShadow s.shadow a fun _ => none }
  | .free i =>
    match s.live[i]? with
    | none => .ok s
    | some a =>
      match free s.mp a with
      | .error e => .error e
      | .ok mp => .ok { mp := mp, live := s.live.erase a, shadow := s.shadow }
  | .write i j v =>
    match s.live[i]? with
    | none => .ok s
    | some a =>
      if j < s.mp.objSz / 8 then
        match userWrite s.mp a j v with
        | .error e => .error e
        | .ok mp => .ok { s with mp := mp, shadow := updShadow s.shadow a fun j' => if j' = j then some v else s.shadow a j' }
      else .ok s

def step : Cfg → Sys → Op → Except Fault Sys := stepWith alloc
def stepDefective : Cfg → Sys → Op → Except Fault Sys := stepWith allocDefective

def runWith (st : Cfg → Sys → Op → Except Fault Sys) (cfg : Cfg) (s : Sys) : List Op → Except Fault Sys
  | [] => .ok s
  | op :: ops =>
    match st cfg s op with
    | .error e => .error e
    | .ok s => runWith st cfg s ops

def run : Cfg → Sys → List Op → Except Fault Sys := runWith step

/-- a dynamically created pool: `cmi_mempool_create` + `cmi_mempool_initialize` -/
def newDynamic (cfg : Cfg) (objSz objNum : Nat) : Except Fault Sys :=
  match initPool cfg create objSz objNum with
  | .error e => .error e
  | .ok mp => .ok { mp := mp }

/-- a thread-local pool declared with `CMI_MEMPOOL_STATIC_INIT` (initialised on first use) -/
def newStatic (objSz objNum : Nat) : Sys := { mp := staticInit objSz objNum }

end CimbaModel.Mempool
