/-
  Definitions used to state the C20 theorems (Props/C20.lean holds theorems only).
-/
import CimbaModel.Mempool.Steps

namespace CimbaModel.Mempool

/-- assumption on libc: chunks are page aligned and pairwise disjoint blocks of `incr_sz` bytes -/
structure Layout (cfg : Cfg) (s : MP) (base : Nat → Nat) : Prop where
  aligned : ∀ c, base c % cfg.page = 0
  apart : ∀ c c', c ≠ c' → base c + s.incrSz ≤ base c' ∨ base c' + s.incrSz ≤ base c

def byteAddr (base : Nat → Nat) (a : Addr) : Nat := base a.1 + 8 * a.2

/-- small parameters for the concrete instances: page 16, CHUNK_LIST_SIZE 2 -/
def cfgSmall : Cfg := { page := 16, cls := 2 }

def faultOf : Except Fault Sys → Option Fault
  | .error e => some e
  | .ok _ => none

def liveOf : Except Fault Sys → List Addr
  | .error _ => []
  | .ok s => s.live

end CimbaModel.Mempool
