/-
  The hand-written `initPool` computes exactly the sizes that the C code of `cmi_mempool_initialize` computes
  (regenerated from the C AST into Generated/Mempool.lean on every run) and fails exactly its release asserts.
-/
import CimbaModel.Mempool.Model
import CimbaModel.Generated.Mempool

namespace CimbaModel.Mempool
open CimbaModel.Generated.Mempool

/-- `initPool` succeeds exactly when the code's release asserts hold (and `obj_sz ≠ 0`, where the C code divides
    by zero) -/
theorem initPool_ok_iff (cfg : Cfg) (s : MP) (sz num : Nat) :
    (∃ s', initPool cfg s sz num = .ok s') ↔ (initialize_asserts sz num = true ∧ sz ≠ 0) := by
  unfold initPool initialize_asserts
  by_cases h1 : sz % 8 = 0 <;> by_cases h2 : num = 0 <;> by_cases h3 : sz = 0 <;>
    simp [h1, h2, h3, mallocList] <;> omega

/-- the five size fields after `initPool` are the ones the C code assigns, as long as `obj_num * obj_sz + page`
    does not wrap around in 64 bits -/
theorem initPool_sizes_eq (page : Nat) (s s' : MP) (sz num : Nat) (hp : 0 < page)
    (hov : num * sz + page < 2 ^ 64)
    (h : initPool { page := page, cls := chunk_list_size } s sz num = .ok s') :
    s'.objSz = (initialize_sizes page s sz num).objSz ∧
    s'.incrSz = (initialize_sizes page s sz num).incrSz ∧
    s'.incrNum = (initialize_sizes page s sz num).incrNum ∧
    s'.listLen = (initialize_sizes page s sz num).listLen ∧
    s'.listCnt = (initialize_sizes page s sz num).listCnt := by
  unfold initPool at h
  split at h
  · cases h
  · split at h
    · cases h
    · split at h
      · cases h
      · simp only [mallocList] at h
        have e1 : (num * sz) % 18446744073709551616 = num * sz := Nat.mod_eq_of_lt (by omega)
        have e2 : (num * sz + page) % 18446744073709551616 = num * sz + page := Nat.mod_eq_of_lt (by omega)
        have e3 : (num * sz + page + 18446744073709551616 - 1) % 18446744073709551616 = num * sz + page - 1 := by omega
        have e4 : (num * sz + page - 1) / page * page % 18446744073709551616 = (num * sz + page - 1) / page * page := by
          have := Nat.div_mul_le_self (num * sz + page - 1) page
          exact Nat.mod_eq_of_lt (by omega)
        have hg : initialize_sizes page s sz num =
            { s with objSz := sz, incrSz := (num * sz + page - 1) / page * page,
                     incrNum := (num * sz + page - 1) / page * page / sz, listLen := chunk_list_size, listCnt := 0 } := by
          simp only [initialize_sizes, chunk_list_size]
          rw [e1, e2, e3, e4]
        rw [hg]
        injection h with h
        subst h
        exact ⟨rfl, rfl, rfl, rfl, rfl⟩

/-- The loop of `cmi_mempool_expand` that threads a fresh chunk (trip count and stride regenerated from the C AST)
    takes exactly the `incr_num - 1` steps of `obj_sz / 8` words that the model's `addChunk` passes to `threadLoop` —
    for EVERY chunk population `incr_num ≥ 1`, in particular for chunks that hold a single object (no link step,
    only the NULL terminator).  `unsigned` counters: `incr_num < 2^32`, `obj_sz / 8 < 2^32`. -/
theorem expand_loop_eq (s : MP) (hnum : 0 < s.incrNum) (hn : s.incrNum < 2 ^ 32) (hs : s.objSz / 8 < 2 ^ 32) :
    expand_links s = s.incrNum - 1 ∧ expand_stride s = s.objSz / 8 := by
  constructor
  · simp only [expand_links]
    first
      | omega
      | (simp only [Nat.max_def]; split <;> omega)
  · simp only [expand_stride]
    omega

end CimbaModel.Mempool
