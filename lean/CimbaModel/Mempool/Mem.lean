/-
  Lemmas about the object memory of the pool model: bounds-checked read / write, the free-list chain
  threaded through memory, and the loop of `cmi_mempool_expand` that threads a fresh chunk.
-/
import CimbaModel.Mempool.Model

namespace CimbaModel.Mempool

/-- number of words of chunk `c` (0 if there is no such chunk) -/
def Mem.row (m : Mem) (c : Nat) : Nat := (m.getD c #[]).size

theorem Mem.get_def (m : Mem) (c w : Nat) : m.get c w = ((m[c]?.getD #[])[w]?).getD .junk := by
  simp [Mem.get, Array.getD_eq_getD_getElem?]

theorem Mem.row_def (m : Mem) (c : Nat) : m.row c = (m[c]?.getD #[]).size := by
  simp [Mem.row, Array.getD_eq_getD_getElem?]

theorem Mem.row_zero_of_ge (m : Mem) (c : Nat) (h : m.size ≤ c) : m.row c = 0 := by
  simp [Mem.row_def, Array.getElem?_eq_none h]

theorem rdW_eq {m : Mem} {c w : Nat} (hc : c < m.size) (hw : w < m.row c) : rdW m c w = .ok (m.get c w) := by
  have hw' : w < m[c].size := by simpa [Mem.row_def, hc] using hw
  simp [rdW, hc, hw', Mem.get_def]

theorem wrW_isOk {m : Mem} {c w : Nat} (v : Word) (hc : c < m.size) (hw : w < m.row c) :
    ∃ m', wrW m c w v = .ok m' := by
  have hw' : w < m[c].size := by simpa [Mem.row_def, hc] using hw
  exact ⟨m.modify c fun row => row.setIfInBounds w v, by simp [wrW, hc, hw']⟩

theorem wrW_inv {m m' : Mem} {c w : Nat} {v : Word} (h : wrW m c w v = .ok m') :
    c < m.size ∧ w < m.row c ∧ m' = m.modify c fun row => row.setIfInBounds w v := by
  unfold wrW at h
  split at h
  · rename_i hc
    split at h
    · rename_i hw
      refine ⟨hc, by simpa [Mem.row_def, hc] using hw, ?_⟩
      cases h; rfl
    · cases h
  · cases h

theorem wrW_size {m m' : Mem} {c w : Nat} {v : Word} (h : wrW m c w v = .ok m') : m'.size = m.size := by
  obtain ⟨_, _, rfl⟩ := wrW_inv h
  simp

theorem wrW_row {m m' : Mem} {c w : Nat} {v : Word} (h : wrW m c w v = .ok m') (c' : Nat) : m'.row c' = m.row c' := by
  obtain ⟨hc, _, rfl⟩ := wrW_inv h
  simp only [Mem.row_def, Array.getElem?_modify]
  split
  · rename_i h1; subst h1; simp [hc]
  · rfl

theorem wrW_get {m m' : Mem} {c w : Nat} {v : Word} (h : wrW m c w v = .ok m') (c' w' : Nat) :
    m'.get c' w' = if c' = c ∧ w' = w then v else m.get c' w' := by
  obtain ⟨hc, hw, rfl⟩ := wrW_inv h
  have hw' : w < m[c].size := by simpa [Mem.row_def, hc] using hw
  simp only [Mem.get_def, Array.getElem?_modify]
  by_cases h1 : c = c'
  · subst h1
    simp only [if_true, hc, Array.getElem?_eq_getElem, Option.map_some, Option.getD_some, true_and,
      Array.getElem?_setIfInBounds]
    by_cases h2 : w = w'
    · subst h2; simp [hw']
    · have : ¬ w' = w := fun e => h2 e.symm
      simp [h2, this]
  · have : ¬ c' = c := fun e => h1 e.symm
    simp [h1, this]

/-! ### the free list as it lies in memory -/

/-- `Chain m hd l`: starting from `next_obj = hd` and following the first words, memory spells out exactly `l` -/
def Chain (m : Mem) : Option Addr → List Addr → Prop
  | hd, [] => hd = none
  | hd, a :: rest => hd = some a ∧ ∃ nx, m.get a.1 a.2 = .link nx ∧ Chain m nx rest

theorem Chain.frame {m m' : Mem} : ∀ {l : List Addr} {hd : Option Addr}, Chain m hd l →
    (∀ a, a ∈ l → m'.get a.1 a.2 = m.get a.1 a.2) → Chain m' hd l
  | [], _, h, _ => h
  | a :: rest, _, ⟨h1, nx, h2, h3⟩, hf =>
    ⟨h1, nx, by rw [hf a (by simp)]; exact h2, Chain.frame h3 fun b hb => hf b (by simp [hb])⟩

theorem Chain.nil_iff {m : Mem} {hd : Option Addr} : Chain m hd [] ↔ hd = none := Iff.rfl

/-- a chain starting at NULL is empty -/
theorem Chain.of_none {m : Mem} {l : List Addr} (h : Chain m none l) : l = [] := by
  cases l with
  | nil => rfl
  | cons a rest => exact absurd h.1 (by simp)

/-! ### the object addresses of one chunk -/

/-- `n` object addresses in chunk `c`, starting at word `w`, `u` words apart -/
def objsFrom (c w u : Nat) : Nat → List Addr
  | 0 => []
  | n + 1 => (c, w) :: objsFrom c (w + u) u n

theorem mem_objsFrom {c u : Nat} : ∀ {n w : Nat} {a : Addr},
    a ∈ objsFrom c w u n ↔ ∃ j, j < n ∧ a = (c, w + j * u)
  | 0, w, a => by simp [objsFrom]
  | n + 1, w, a => by
    simp only [objsFrom, List.mem_cons, mem_objsFrom (n := n)]
    constructor
    · rintro (h | ⟨j, hj, h⟩)
      · exact ⟨0, by omega, by simpa using h⟩
      · exact ⟨j + 1, by omega, by rw [h, Nat.succ_mul]; congr 1; omega⟩
    · rintro ⟨j, hj, h⟩
      cases j with
      | zero => left; simpa using h
      | succ j => right; exact ⟨j, by omega, by rw [h, Nat.succ_mul]; congr 1; omega⟩

theorem nodup_objsFrom {c u : Nat} (hu : 0 < u) : ∀ (n w : Nat), (objsFrom c w u n).Nodup
  | 0, _ => by simp [objsFrom]
  | n + 1, w => by
    simp only [objsFrom, List.nodup_cons]
    refine ⟨?_, nodup_objsFrom hu n (w + u)⟩
    rw [mem_objsFrom]
    rintro ⟨j, _, h⟩
    have : w = w + u + j * u := congrArg Prod.snd h
    omega

theorem length_objsFrom {c u : Nat} : ∀ (n w : Nat), (objsFrom c w u n).length = n
  | 0, _ => rfl
  | n + 1, w => by simp [objsFrom, length_objsFrom n]

/-! ### the threading loop of `cmi_mempool_expand` -/

theorem threadLoop_spec (c u : Nat) (hu : 0 < u) : ∀ (k : Nat) (m : Mem) (w : Nat),
    c < m.size → w + k * u < m.row c →
    ∃ m', threadLoop m c w u k = .ok m' ∧ m'.size = m.size ∧ (∀ c', m'.row c' = m.row c') ∧
      (∀ c' w', (c' ≠ c ∨ w' < w) → m'.get c' w' = m.get c' w') ∧
      Chain m' (some (c, w)) (objsFrom c w u (k + 1))
  | 0, m, w, hc, hw => by
    obtain ⟨m', hm'⟩ := wrW_isOk (.link none) hc (by simpa using hw)
    refine ⟨m', by simpa [threadLoop] using hm', wrW_size hm', wrW_row hm', ?_, ?_⟩
    · intro c' w' h
      rw [wrW_get hm']
      have : ¬ (c' = c ∧ w' = w) := by omega
      simp [this]
    · refine ⟨rfl, none, ?_, rfl⟩
      rw [wrW_get hm']; simp
  | k + 1, m, w, hc, hw => by
    have hw1 : w < m.row c := by rw [Nat.succ_mul] at hw; omega
    obtain ⟨m1, hm1⟩ := wrW_isOk (.link (some (c, w + u))) hc hw1
    have hc1 : c < m1.size := by rw [wrW_size hm1]; exact hc
    have hw2 : w + u + k * u < m1.row c := by rw [wrW_row hm1, Nat.succ_mul] at *; omega
    obtain ⟨m', h1, h2, h3, h4, h5⟩ := threadLoop_spec c u hu k m1 (w + u) hc1 hw2
    refine ⟨m', ?_, by rw [h2, wrW_size hm1], fun c' => by rw [h3, wrW_row hm1], ?_, ?_⟩
    · simp [threadLoop, hm1, h1, bind, Except.bind]
    · intro c' w' h
      rw [h4 c' w' (by omega), wrW_get hm1]
      have : ¬ (c' = c ∧ w' = w) := by omega
      simp [this]
    · refine ⟨rfl, some (c, w + u), ?_, h5⟩
      rw [h4 c w (by omega), wrW_get hm1]; simp

end CimbaModel.Mempool
