/-
  `cmi_mempool_expand` (as repaired) keeps the invariant and never faults; the shipped variant faults
  exactly when the chunk list itself has to grow.
-/
import CimbaModel.Mempool.Inv

namespace CimbaModel.Mempool

/-- "Expand the area list if necessary", repaired code -/
theorem growList_ok {cfg : Cfg} {s : MP} (hcls : 0 < cfg.cls) (hp : s.chunkList = s.blkLive)
    (hl : s.blkLive ≠ none) (hcap : s.listLen ≤ s.blkData.size) (hlt : s.listCnt < s.listLen)
    (hfr : ∀ h, s.blkLive = some h → h < s.blkNext) :
    ∃ s', growList true 8 cfg s = .ok s' ∧ (∀ h, s'.blkLive = some h → h < s'.blkNext) ∧
      s'.chunkList = s'.blkLive ∧ s'.blkLive ≠ none ∧
      s'.listLen ≤ s'.blkData.size ∧ s'.listCnt = s.listCnt + 1 ∧ s'.listCnt < s'.listLen ∧
      (∀ i, i < s.listLen → s'.blkData.getD i none = s.blkData.getD i none) ∧
      s'.mem = s.mem ∧ s'.nextObj = s.nextObj ∧ s'.cookie = s.cookie ∧ s'.objSz = s.objSz ∧
      s'.incrNum = s.incrNum ∧ s'.incrSz = s.incrSz := by
  obtain ⟨h0, hlive⟩ := Option.ne_none_iff_exists'.mp hl
  have hcl : s.chunkList = some h0 := by rw [hp, hlive]
  by_cases hg : s.listCnt + 1 = s.listLen
  · refine ⟨{ s with listCnt := s.listCnt + 1, listLen := s.listLen + cfg.cls, blkNext := s.blkNext + 1,
                     blkLive := some s.blkNext, chunkList := some s.blkNext,
                     blkData := Array.ofFn (n := (s.listLen + cfg.cls) * 8 / 8) fun i => s.blkData.getD i.val none },
      by simp [growList, hg, reallocList, hcl, hlive], ?_⟩
    refine ⟨fun h e => by simp only [Option.some.injEq] at e; show h < s.blkNext + 1; omega, rfl, by simp, by simp, rfl, by simp; omega, ?_, rfl, rfl, rfl, rfl, rfl, rfl⟩
    intro i hi
    have : i < s.listLen + cfg.cls := by omega
    simp [Array.getD_eq_getD_getElem?, this]
  · refine ⟨{ s with listCnt := s.listCnt + 1 }, by simp [growList, hg], ?_⟩
    exact ⟨hfr, hp, hl, hcap, rfl, by simp; omega, fun _ _ => rfl, rfl, rfl, rfl, rfl, rfl, rfl⟩

/-- new chunk, recorded in the list, objects threaded -/
theorem addChunk_ok {cfg : Cfg} {s : MP} (hcfg : CfgOK cfg) (hp : s.chunkList = s.blkLive)
    (hl : s.blkLive ≠ none) (hcap : s.listLen ≤ s.blkData.size) (hcnt : s.listCnt = s.mem.size + 1)
    (hlt : s.listCnt < s.listLen) (h8 : s.objSz % 8 = 0) (hsz : 0 < s.objSz) (hnum : 0 < s.incrNum)
    (hfit : s.incrNum * s.objSz ≤ s.incrSz) (hisz : s.incrSz % cfg.page = 0) :
    ∃ s', addChunk cfg s = .ok s' ∧ s'.mem.size = s.mem.size + 1 ∧
      (∀ c, c < s.mem.size → s'.mem.row c = s.mem.row c) ∧ s'.mem.row s.mem.size = s.incrSz / 8 ∧
      (∀ c w, c < s.mem.size → s'.mem.get c w = s.mem.get c w) ∧
      Chain s'.mem s'.nextObj (objsFrom s.mem.size 0 (s.objSz / 8) s.incrNum) ∧
      s'.blkData = s.blkData.setIfInBounds s.mem.size (some s.mem.size) ∧
      s'.chunkList = s.chunkList ∧ s'.blkLive = s.blkLive ∧ s'.listLen = s.listLen ∧ s'.listCnt = s.listCnt ∧
      s'.cookie = s.cookie ∧ s'.objSz = s.objSz ∧ s'.incrNum = s.incrNum ∧ s'.incrSz = s.incrSz ∧
      s'.blkNext = s.blkNext := by
  obtain ⟨h0, hlive⟩ := Option.ne_none_iff_exists'.mp hl
  have hcl : s.chunkList = some h0 := by rw [hp, hlive]
  have hu : 0 < s.objSz / 8 := by omega
  have hwf := slots_fit h8 hfit
  -- incr_sz is a positive multiple of the page size, hence > 8
  have hpos : 0 < s.incrSz := by
    have : 1 * s.objSz ≤ s.incrNum * s.objSz := Nat.mul_le_mul_right _ hnum
    omega
  have hbig : 8 < s.incrSz := by
    have := Nat.le_of_dvd hpos (Nat.dvd_of_mod_eq_zero hisz)
    have := hcfg.pageBig
    omega
  have hassert : 8 < cfg.page ∧ cfg.page % 8 = 0 ∧ isPow2 cfg.page = true ∧ 8 < s.incrSz ∧ s.incrSz % cfg.page = 0 :=
    ⟨hcfg.pageBig, hcfg.page8, hcfg.pagePow, hbig, hisz⟩
  -- the memory after aligned_alloc
  let m1 : Mem := s.mem.push (Array.replicate (s.incrSz / 8) .junk)
  have hm1size : m1.size = s.mem.size + 1 := by simp [m1]
  have hm1row : m1.row s.mem.size = s.incrSz / 8 := by simp [m1, Mem.row_def]
  have hm1rowOld : ∀ c, c < s.mem.size → m1.row c = s.mem.row c := by
    intro c hc
    have : ¬ c = s.mem.size := by omega
    simp [m1, Mem.row_def, Array.getElem?_push, this]
  have hm1getOld : ∀ c w, c < s.mem.size → m1.get c w = s.mem.get c w := by
    intro c w hc
    have : ¬ c = s.mem.size := by omega
    simp [m1, Mem.get_def, Array.getElem?_push, this]
  have hk : 0 + (s.incrNum - 1) * (s.objSz / 8) < m1.row s.mem.size := by
    rw [hm1row]
    have := slot_lt (k := s.incrNum - 1) (j := 0) (by omega) hu hwf
    omega
  obtain ⟨m', ht, hsize, hrow, hget, hchain⟩ :=
    threadLoop_spec s.mem.size (s.objSz / 8) hu (s.incrNum - 1) m1 0 (by omega) hk
  have hidx : s.listCnt - 1 < s.blkData.size := by omega
  have hnum1 : s.incrNum - 1 + 1 = s.incrNum := by omega
  rw [hnum1] at hchain
  refine ⟨{ s with mem := m', nextObj := some (s.mem.size, 0),
                   blkData := s.blkData.setIfInBounds s.mem.size (some s.mem.size) }, ?_, ?_⟩
  · have e1 : s.listCnt - 1 = s.mem.size := by omega
    simp only [addChunk, alignedAlloc, hassert, and_self, if_true, listWrite, hcl, hlive, hidx]
    simp only [e1] at hidx ⊢
    simp [ht, m1]
  · refine ⟨by simp [hsize, hm1size], ?_, by simp [hrow, hm1row], ?_, hchain, rfl, rfl, rfl, rfl, rfl, rfl, rfl, rfl, rfl, rfl⟩
    · intro c hc; simp [hrow, hm1rowOld c hc]
    · intro c w hc
      show m'.get c w = s.mem.get c w
      rw [hget c w (by omega), hm1getOld c w hc]

/-- `cmi_mempool_expand` (repaired) on a pool whose free list is exhausted -/
theorem expand_inv {cfg : Cfg} {s : MP} {live : List Addr} (hcfg : CfgOK cfg) (h : Inv cfg s [] live) :
    ∃ s', expand cfg s = .ok s' ∧
      Inv cfg s' (objsFrom s.mem.size 0 (s.objSz / 8) s.incrNum) live ∧
      (∀ c w, c < s.mem.size → s'.mem.get c w = s.mem.get c w) ∧ s'.objSz = s.objSz := by
  have hnone : s.nextObj = none := h.chain
  obtain ⟨s1, hg, g0, g1, g2, g3, g4, g5, g6, g7, g8, g9, g10, g11, g12⟩ :=
    growList_ok hcfg.clsPos h.lptr h.lsome h.lcap h.cntLt h.lfresh
  obtain ⟨s2, ha, a1, a2, a3, a4, a5, a6, a7, a8, a9, a10, a11, a12, a13, a14, a15⟩ :=
    addChunk_ok (s := s1) hcfg g1 g2 g3 (by rw [g4, g7, h.cntMem]) g5 (by rw [g10]; exact h.sz8)
      (by rw [g10]; exact h.szPos) (by rw [g11]; exact h.numPos) (by rw [g10, g11, g12]; exact h.fits)
      (by rw [g12]; exact h.isz)
  rw [g7] at a1 a2 a3 a4 a5 a6
  rw [g10, g11] at a5
  rw [g12] at a3
  have hu := h.uPos
  refine ⟨s2, ?_, ?_, a4, by rw [a12, g10]⟩
  · simp [expand, expandWith, expandEnter, hnone, h.cookie, hg, ha]
  · exact {
      cookie := by rw [a11, g9]; exact h.cookie
      sz8 := by rw [a12, g10]; exact h.sz8
      szPos := by rw [a12, g10]; exact h.szPos
      numPos := by rw [a13, g11]; exact h.numPos
      fits := by rw [a12, a13, a14, g10, g11, g12]; exact h.fits
      isz := by rw [a14, g12]; exact h.isz
      lptr := by rw [a7, a8]; exact g1
      lsome := by rw [a8]; exact g2
      lfresh := by rw [a8, a15]; exact g0
      lcap := by rw [a9, a6]; simpa using g3
      cntLt := by rw [a10, a9]; exact g5
      cntMem := by rw [a10, g4, a1, h.cntMem]
      ldata := by
        intro i hi
        rw [a10, g4, h.cntMem] at hi
        rw [a6, Array.getD_eq_getD_getElem?, Array.getElem?_setIfInBounds]
        by_cases e : s.mem.size = i
        · have : s.mem.size < s1.blkData.size := by have := h.cntMem; omega
          subst e
          simp [this]
        · have hi' : i < s.listCnt := by have := h.cntMem; omega
          simp only [e, if_false]
          rw [← Array.getD_eq_getD_getElem?, g6 i (by have := h.cntLt; omega)]
          exact h.ldata i hi'
      rows := by
        intro c hc
        rw [a1] at hc
        rw [a14, g12]
        by_cases e : c = s.mem.size
        · rw [e]; exact a3
        · rw [a2 c (by omega)]; exact h.rows c (by omega)
      chain := a5
      flNodup := nodup_objsFrom hu _ _
      liveNodup := h.liveNodup
      disj := by
        intro a ha hlive
        obtain ⟨j, _, rfl⟩ := mem_objsFrom.mp ha
        have := ((h.part _).mp (Or.inr hlive)).1
        simp at this
      part := by
        intro a
        simp only [ValidObj, a1, a12, a13, g10, g11, mem_objsFrom]
        constructor
        · rintro (⟨j, hj, rfl⟩ | hl)
          · exact ⟨by simp, j, hj, by simp⟩
          · obtain ⟨hc, hk⟩ := (h.part a).mp (Or.inr hl)
            exact ⟨by omega, hk⟩
        · rintro ⟨hc, k, hk, hw⟩
          by_cases e : a.1 = s.mem.size
          · left; exact ⟨k, hk, Prod.ext e (by simpa using hw)⟩
          · right
            have := (h.part a).mpr ⟨by omega, k, hk, hw⟩
            simpa using this }

/-! ### the code as shipped, and the two half repairs -/

theorem Inv.incrBig {cfg : Cfg} {s : MP} {fl live : List Addr} (hcfg : CfgOK cfg) (h : Inv cfg s fl live) :
    8 < s.incrSz := by
  have hpos : 0 < s.incrSz := by
    have : 1 * s.objSz ≤ s.incrNum * s.objSz := Nat.mul_le_mul_right _ h.numPos
    have := h.fits; have := h.szPos
    omega
  have := Nat.le_of_dvd hpos (Nat.dvd_of_mod_eq_zero h.isz)
  have := hcfg.pageBig
  omega

/-- Dropping realloc's result (`cmi_realloc(mp->chunk_list, …);` as a statement): the first expansion at which the
    chunk list has to grow writes through the dead pointer.  Holds whatever byte size is passed. -/
theorem expandWith_dropResult_faults {cfg : Cfg} {s : MP} {live : List Addr} (eb : Nat) (hcfg : CfgOK cfg)
    (h : Inv cfg s [] live) (hg : s.listCnt + 1 = s.listLen) :
    expandWith false eb cfg s = .error .listStale := by
  have hnone : s.nextObj = none := h.chain
  obtain ⟨h0, hlive⟩ := Option.ne_none_iff_exists'.mp h.lsome
  have hcl : s.chunkList = some h0 := by rw [h.lptr, hlive]
  have hne : ¬ s.blkNext = h0 := by have := h.lfresh h0 hlive; omega
  have hassert : 8 < cfg.page ∧ cfg.page % 8 = 0 ∧ isPow2 cfg.page = true ∧ 8 < s.incrSz ∧ s.incrSz % cfg.page = 0 :=
    ⟨hcfg.pageBig, hcfg.page8, hcfg.pagePow, h.incrBig hcfg, h.isz⟩
  simp [expandWith, expandEnter, hnone, h.cookie, growList, hg, reallocList, hcl, hlive, addChunk, alignedAlloc,
    hassert, listWrite, hne]

/-- Using the result but passing the element count as the byte size: the block shrinks to `count / 8` entries and
    the store of the new chunk's address lands outside it. -/
theorem expandWith_undersized_faults {cfg : Cfg} {s : MP} {live : List Addr} (hcfg : CfgOK cfg)
    (h : Inv cfg s [] live) (hg : s.listCnt + 1 = s.listLen) (hsmall : (s.listLen + cfg.cls) / 8 ≤ s.listCnt) :
    expandWith true 1 cfg s = .error (.listOob s.listCnt) := by
  have hnone : s.nextObj = none := h.chain
  obtain ⟨h0, hlive⟩ := Option.ne_none_iff_exists'.mp h.lsome
  have hcl : s.chunkList = some h0 := by rw [h.lptr, hlive]
  have hassert : 8 < cfg.page ∧ cfg.page % 8 = 0 ∧ isPow2 cfg.page = true ∧ 8 < s.incrSz ∧ s.incrSz % cfg.page = 0 :=
    ⟨hcfg.pageBig, hcfg.page8, hcfg.pagePow, h.incrBig hcfg, h.isz⟩
  have hoob : ¬ s.listLen - 1 < (s.listLen + cfg.cls) / 8 := by omega
  have e : s.listLen - 1 = s.listCnt := by omega
  simp [expandWith, expandEnter, hnone, h.cookie, growList, hg, reallocList, hcl, hlive, addChunk, alignedAlloc,
    hassert, listWrite, hoob]
  exact e

/-- `cmi_mempool_expand` as shipped faults at the expansion that makes `chunk_list_cnt` reach `chunk_list_len`
    (the 64th chunk with `CHUNK_LIST_SIZE = 64`) -/
theorem expandDefective_faults_at_growth {cfg : Cfg} {s : MP} {live : List Addr} (hcfg : CfgOK cfg)
    (h : Inv cfg s [] live) (hg : s.listCnt + 1 = s.listLen) : expandDefective cfg s = .error .listStale :=
  expandWith_dropResult_faults 1 hcfg h hg

end CimbaModel.Mempool
