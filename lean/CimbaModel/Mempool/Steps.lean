/-
  alloc / free / user stores keep the invariant; client programs (`Sys`, `step`, `run`) never fault and
  keep `Good`, which adds the client's view: everything it stored in an object it still holds is still there.
-/
import CimbaModel.Mempool.Expand

namespace CimbaModel.Mempool

/-! ### popping the free list -/

theorem pop_inv {cfg : Cfg} {s : MP} {a : Addr} {rest live : List Addr} (h : Inv cfg s (a :: rest) live) :
    ∃ nx, s.nextObj = some a ∧ rdW s.mem a.1 a.2 = .ok (.link nx) ∧
      Inv cfg { s with nextObj := nx } rest (a :: live) ∧ a ∉ live := by
  obtain ⟨h1, nx, h2, h3⟩ := h.chain
  have hv : ValidObj s a := (h.part a).mp (Or.inl (by simp))
  obtain ⟨hc, hw⟩ := h.inBounds hv h.uPos
  have hnd := List.nodup_cons.mp h.flNodup
  have hal : a ∉ live := h.disj a (by simp)
  refine ⟨nx, h1, by rw [rdW_eq hc (by simpa using hw), h2], ?_, hal⟩
  exact {
    cookie := h.cookie, sz8 := h.sz8, szPos := h.szPos, numPos := h.numPos, fits := h.fits, isz := h.isz
    lptr := h.lptr, lsome := h.lsome, lfresh := h.lfresh, lcap := h.lcap, cntLt := h.cntLt, cntMem := h.cntMem
    ldata := h.ldata, rows := h.rows
    chain := h3
    flNodup := hnd.2
    liveNodup := List.nodup_cons.mpr ⟨hal, h.liveNodup⟩
    disj := by
      intro b hb hbl
      rcases List.mem_cons.mp hbl with e | hbl
      · subst e; exact hnd.1 hb
      · exact h.disj b (by simp [hb]) hbl
    part := by
      intro b
      show _ ↔ ValidObj s b
      rw [← h.part b]
      simp only [List.mem_cons]
      constructor
      · rintro (hb | hb | hb)
        · exact Or.inl (Or.inr hb)
        · exact Or.inl (Or.inl hb)
        · exact Or.inr hb
      · rintro ((hb | hb) | hb)
        · exact Or.inr (Or.inl hb)
        · exact Or.inl hb
        · exact Or.inr (Or.inr hb) }

/-- `cmi_mempool_alloc` on an initialised pool: never faults, hands out an object that was not live -/
theorem alloc_inv {cfg : Cfg} {s : MP} {fl live : List Addr} (hcfg : CfgOK cfg) (h : Inv cfg s fl live) :
    ∃ s' a fl', alloc cfg s = .ok (s', a) ∧ Inv cfg s' fl' (a :: live) ∧ a ∉ live ∧
      (∀ c w, c < s.mem.size → s'.mem.get c w = s.mem.get c w) ∧ s'.objSz = s.objSz := by
  cases hn : s.nextObj with
  | none =>
    have hfl : fl = [] := by have := h.chain; rw [hn] at this; exact this.of_none
    subst hfl
    obtain ⟨s1, he, hi, hfr, hsz⟩ := expand_inv hcfg h
    obtain ⟨n', hn'⟩ : ∃ n', s.incrNum = n' + 1 := ⟨s.incrNum - 1, by have := h.numPos; omega⟩
    rw [hn'] at hi
    simp only [objsFrom] at hi
    obtain ⟨nx, p1, p2, p3, p4⟩ := pop_inv hi
    refine ⟨{ s1 with nextObj := nx }, _, _, ?_, p3, p4, hfr, hsz⟩
    simp [alloc, allocWith, hn, he, p1, p2]
  | some a0 =>
    cases fl with
    | nil => have := h.chain; rw [hn] at this; exact absurd this (by simp [Chain])
    | cons a rest =>
      obtain ⟨nx, p1, p2, p3, p4⟩ := pop_inv h
      refine ⟨{ s with nextObj := nx }, a, rest, ?_, p3, p4, fun _ _ _ => rfl, rfl⟩
      simp [alloc, allocWith, p1, p2]

/-- first use of a `CMI_MEMPOOL_STATIC_INIT` pool -/
theorem alloc_pre {cfg : Cfg} {s : MP} (hcfg : CfgOK cfg) (h : Pre s) :
    ∃ s' a fl', alloc cfg s = .ok (s', a) ∧ Inv cfg s' fl' [a] ∧ s'.objSz = s.objSz := by
  obtain ⟨s0, h0, hi⟩ := initPool_inv (cfg := cfg) (s := s) hcfg h.sz8 h.szPos h.numPos h.mem
  have hsz0 : s0.objSz = s.objSz := by
    have hn : ¬ s.incrNum = 0 := by have := h.numPos; omega
    have hs : ¬ s.objSz = 0 := by have := h.szPos; omega
    simp only [initPool, h.sz8, hn, hs, mallocList] at h0
    cases h0; rfl
  have hnone0 : s0.nextObj = none := hi.chain
  obtain ⟨s', a, fl', ha, hi', _, _, hsz⟩ := alloc_inv hcfg hi
  refine ⟨s', a, fl', ?_, hi', by rw [hsz, hsz0]⟩
  rw [← ha]
  simp [alloc, allocWith, h.next, hnone0, expand, expandWith, expandEnter, h.cookie, h0, hi.cookie]

/-! ### returning an object -/

theorem free_inv {cfg : Cfg} {s : MP} {fl live : List Addr} {a : Addr} (h : Inv cfg s fl live) (ha : a ∈ live) :
    ∃ s', free s a = .ok s' ∧ Inv cfg s' (a :: fl) (live.erase a) ∧
      (∀ c w, ¬ (c = a.1 ∧ w = a.2) → s'.mem.get c w = s.mem.get c w) ∧ s'.objSz = s.objSz := by
  have hv : ValidObj s a := (h.part a).mp (Or.inr ha)
  obtain ⟨hc, hw⟩ := h.inBounds hv h.uPos
  obtain ⟨m', hm'⟩ := wrW_isOk (.link s.nextObj) hc (by simpa using hw)
  have hafl : a ∉ fl := fun hf => h.disj a hf ha
  have hck : ¬ s.cookie ≠ .init := by simp [h.cookie]
  refine ⟨{ s with mem := m', nextObj := some a }, by simp [free, h.cookie, hm'], ?_, ?_, rfl⟩
  · exact {
      cookie := h.cookie, sz8 := h.sz8, szPos := h.szPos, numPos := h.numPos, fits := h.fits, isz := h.isz
      lptr := h.lptr, lsome := h.lsome, lfresh := h.lfresh, lcap := h.lcap, cntLt := h.cntLt
      cntMem := by show s.listCnt = m'.size; rw [wrW_size hm']; exact h.cntMem
      ldata := h.ldata
      rows := by
        intro c hc'
        show m'.row c = s.incrSz / 8
        rw [wrW_row hm']; exact h.rows c (by rw [← wrW_size hm']; exact hc')
      chain := by
        refine ⟨rfl, s.nextObj, ?_, ?_⟩
        · show m'.get a.1 a.2 = _
          rw [wrW_get hm']; simp
        · refine Chain.frame h.chain ?_
          intro b hb
          show m'.get b.1 b.2 = _
          rw [wrW_get hm']
          have : ¬ (b.1 = a.1 ∧ b.2 = a.2) := fun ⟨e1, e2⟩ => hafl (by rw [← Prod.ext e1 e2]; exact hb)
          simp [this]
      flNodup := List.nodup_cons.mpr ⟨hafl, h.flNodup⟩
      liveNodup := h.liveNodup.erase a
      disj := by
        intro b hb hbl
        rw [h.liveNodup.mem_erase_iff] at hbl
        rcases List.mem_cons.mp hb with e | hb
        · exact hbl.1 e
        · exact h.disj b hb hbl.2
      part := by
        intro b
        have e : ValidObj { s with mem := m', nextObj := some a } b ↔ ValidObj s b := by
          simp only [ValidObj, wrW_size hm']
        rw [e, ← h.part b, h.liveNodup.mem_erase_iff]
        simp only [List.mem_cons]
        constructor
        · rintro ((hb | hb) | ⟨_, hb⟩)
          · subst hb; exact Or.inr ha
          · exact Or.inl hb
          · exact Or.inr hb
        · rintro (hb | hb)
          · exact Or.inl (Or.inr hb)
          · by_cases e : b = a
            · exact Or.inl (Or.inl e)
            · exact Or.inr ⟨e, hb⟩ }
  · intro c w hne
    show m'.get c w = _
    rw [wrW_get hm']; simp [hne]

/-! ### a store by the owner of an object -/

theorem userWrite_inv {cfg : Cfg} {s : MP} {fl live : List Addr} {a : Addr} {j : Nat} (v : Nat)
    (h : Inv cfg s fl live) (ha : a ∈ live) (hj : j < s.objSz / 8) :
    ∃ s', userWrite s a j v = .ok s' ∧ Inv cfg s' fl live ∧
      (∀ c w, s'.mem.get c w = if c = a.1 ∧ w = a.2 + j then .data v else s.mem.get c w) ∧
      s'.objSz = s.objSz := by
  have hv : ValidObj s a := (h.part a).mp (Or.inr ha)
  obtain ⟨hc, hw⟩ := h.inBounds hv hj
  obtain ⟨m', hm'⟩ := wrW_isOk (.data v) hc hw
  refine ⟨{ s with mem := m' }, by simp [userWrite, hm'], ?_, fun c w => wrW_get hm' c w, rfl⟩
  exact {
    cookie := h.cookie, sz8 := h.sz8, szPos := h.szPos, numPos := h.numPos, fits := h.fits, isz := h.isz
    lptr := h.lptr, lsome := h.lsome, lfresh := h.lfresh, lcap := h.lcap, cntLt := h.cntLt
    cntMem := by show s.listCnt = m'.size; rw [wrW_size hm']; exact h.cntMem
    ldata := h.ldata
    rows := by
      intro c hc'
      show m'.row c = s.incrSz / 8
      rw [wrW_row hm']; exact h.rows c (by rw [← wrW_size hm']; exact hc')
    chain := by
      refine Chain.frame h.chain ?_
      intro b hb
      show m'.get b.1 b.2 = _
      rw [wrW_get hm']
      have hvb : ValidObj s b := (h.part b).mp (Or.inl hb)
      have : ¬ (b.1 = a.1 ∧ b.2 = a.2 + j) := by
        rintro ⟨e1, e2⟩
        have := (ValidObj.word_inj hvb hv h.uPos hj e1 (by simpa using e2)).1
        exact h.disj b hb (this ▸ ha)
      simp [this]
    flNodup := h.flNodup, liveNodup := h.liveNodup, disj := h.disj
    part := by
      intro b
      have e : ValidObj { s with mem := m' } b ↔ ValidObj s b := by simp only [ValidObj, wrW_size hm']
      rw [e]; exact h.part b }

/-! ### client programs -/

/-- what the client stored in an object it still holds is still there -/
def ShadowOK (s : Sys) : Prop :=
  ∀ a, a ∈ s.live → ∀ j v, s.shadow a j = some v → j < s.mp.objSz / 8 ∧ s.mp.mem.get a.1 (a.2 + j) = .data v

/-- the pool is initialised and satisfies the invariant, or it is a static pool that has not been used yet -/
def PoolOK (cfg : Cfg) (s : Sys) : Prop :=
  (∃ fl, Inv cfg s.mp fl s.live) ∨ (Pre s.mp ∧ s.live = [])

def Good (cfg : Cfg) (s : Sys) : Prop := PoolOK cfg s ∧ ShadowOK s

theorem step_alloc_good {cfg : Cfg} {s : Sys} (hcfg : CfgOK cfg) (h : Good cfg s) :
    ∃ s' a, step cfg s .alloc = .ok s' ∧ Good cfg s' ∧ s'.live = a :: s.live ∧ a ∉ s.live ∧
      (∀ b, b ∈ s.live → ∀ j, j < s.mp.objSz / 8 → s'.mp.mem.get b.1 (b.2 + j) = s.mp.mem.get b.1 (b.2 + j)) := by
  obtain ⟨hp, hsh⟩ := h
  rcases hp with ⟨fl, hi⟩ | ⟨hpre, hl⟩
  · obtain ⟨mp', a, fl', ha, hi', hnl, hfr, hsz⟩ := alloc_inv hcfg hi
    have hframe : ∀ b, b ∈ s.live → ∀ j, mp'.mem.get b.1 (b.2 + j) = s.mp.mem.get b.1 (b.2 + j) :=
      fun b hb j => hfr _ _ ((hi.part b).mp (Or.inr hb)).1
    refine ⟨{ mp := mp', live := a :: s.live, shadow := updShadow s.shadow a fun _ => none }, a, ?_,
      ⟨Or.inl ⟨fl', hi'⟩, ?_⟩, rfl, hnl, fun b hb j _ => hframe b hb j⟩
    · simp [step, stepWith, ha]
    · intro b hb j v hs
      simp only [updShadow] at hs
      by_cases e : b = a
      · simp [e] at hs
      · simp only [e, if_false] at hs
        have hb' : b ∈ s.live := by simpa [e] using hb
        obtain ⟨q1, q2⟩ := hsh b hb' j v hs
        exact ⟨by show j < mp'.objSz / 8; rw [hsz]; exact q1, by show mp'.mem.get _ _ = _; rw [hframe b hb' j]; exact q2⟩
  · obtain ⟨mp', a, fl', ha, hi', hsz⟩ := alloc_pre hcfg hpre
    refine ⟨{ mp := mp', live := a :: s.live, shadow := updShadow s.shadow a fun _ => none }, a, ?_,
      ⟨Or.inl ⟨fl', by rw [hl]; exact hi'⟩, ?_⟩, rfl, by simp [hl], by simp [hl]⟩
    · simp [step, stepWith, ha]
    · intro b hb j v hs
      have e : b = a := by simpa [hl] using hb
      simp [updShadow, e] at hs

theorem step_free_good {cfg : Cfg} {s : Sys} (i : Nat) (h : Good cfg s) :
    ∃ s', step cfg s (.free i) = .ok s' ∧ Good cfg s' ∧
      (∀ b, b ∈ s'.live → b ∈ s.live ∧
        ∀ j, j < s.mp.objSz / 8 → s'.mp.mem.get b.1 (b.2 + j) = s.mp.mem.get b.1 (b.2 + j)) := by
  obtain ⟨hp, hsh⟩ := h
  cases hget : s.live[i]? with
  | none => exact ⟨s, by simp [step, stepWith, hget], ⟨hp, hsh⟩, fun b hb => ⟨hb, fun _ _ => rfl⟩⟩
  | some a =>
    have ha : a ∈ s.live := List.mem_of_getElem? hget
    rcases hp with ⟨fl, hi⟩ | ⟨_, hl⟩
    · obtain ⟨mp', hf, hi', hfr, hsz⟩ := free_inv hi ha
      have hframe : ∀ b, b ∈ s.live.erase a → b ∈ s.live ∧
          ∀ j, j < s.mp.objSz / 8 → mp'.mem.get b.1 (b.2 + j) = s.mp.mem.get b.1 (b.2 + j) := by
        intro b hb
        rw [hi.liveNodup.mem_erase_iff] at hb
        refine ⟨hb.2, fun j hj => hfr _ _ ?_⟩
        rintro ⟨e1, e2⟩
        have := (ValidObj.word_inj ((hi.part b).mp (Or.inr hb.2)) ((hi.part a).mp (Or.inr ha)) hj hi.uPos e1
          (by simpa using e2)).1
        exact hb.1 this
      refine ⟨{ mp := mp', live := s.live.erase a, shadow := s.shadow }, by simp [step, stepWith, hget, hf],
        ⟨Or.inl ⟨_, hi'⟩, ?_⟩, hframe⟩
      intro b hb j v hs
      obtain ⟨hbl, hfr'⟩ := hframe b hb
      obtain ⟨q1, q2⟩ := hsh b hbl j v hs
      exact ⟨by show j < mp'.objSz / 8; rw [hsz]; exact q1, by show mp'.mem.get _ _ = _; rw [hfr' j q1]; exact q2⟩
    · rw [hl] at ha; simp at ha

theorem step_write_good {cfg : Cfg} {s : Sys} (i j v : Nat) (h : Good cfg s) :
    ∃ s', step cfg s (.write i j v) = .ok s' ∧ Good cfg s' ∧ s'.live = s.live ∧
      (∀ b, b ∈ s.live → ∀ j', j' < s.mp.objSz / 8 → ¬ (s.live[i]? = some b ∧ j' = j) →
        s'.mp.mem.get b.1 (b.2 + j') = s.mp.mem.get b.1 (b.2 + j')) := by
  obtain ⟨hp, hsh⟩ := h
  cases hget : s.live[i]? with
  | none => exact ⟨s, by simp [step, stepWith, hget], ⟨hp, hsh⟩, rfl, fun _ _ _ _ _ => rfl⟩
  | some a =>
    have ha : a ∈ s.live := List.mem_of_getElem? hget
    by_cases hj : j < s.mp.objSz / 8
    · rcases hp with ⟨fl, hi⟩ | ⟨_, hl⟩
      · obtain ⟨mp', hw, hi', hmem, hsz⟩ := userWrite_inv v hi ha hj
        have hother : ∀ b, b ∈ s.live → ∀ j', j' < s.mp.objSz / 8 → ¬ (b = a ∧ j' = j) →
            mp'.mem.get b.1 (b.2 + j') = s.mp.mem.get b.1 (b.2 + j') := by
          intro b hb j' hj' hne
          rw [hmem]
          have : ¬ (b.1 = a.1 ∧ b.2 + j' = a.2 + j) := by
            rintro ⟨e1, e2⟩
            exact hne (ValidObj.word_inj ((hi.part b).mp (Or.inr hb)) ((hi.part a).mp (Or.inr ha)) hj' hj e1 e2)
          simp [this]
        refine ⟨{ s with mp := mp', shadow := updShadow s.shadow a fun j' => if j' = j then some v else s.shadow a j' },
          by simp [step, stepWith, hget, hj, hw], ⟨Or.inl ⟨fl, hi'⟩, ?_⟩, rfl, ?_⟩
        · intro b hb j' v' hs
          have hb' : b ∈ s.live := hb
          simp only [updShadow] at hs
          show j' < mp'.objSz / 8 ∧ mp'.mem.get b.1 (b.2 + j') = .data v'
          rw [hsz]
          by_cases e : b = a
          · subst e
            simp only [if_true] at hs
            by_cases e2 : j' = j
            · subst e2
              simp only [if_true, Option.some.injEq] at hs
              subst hs
              exact ⟨hj, by rw [hmem]; simp⟩
            · simp only [e2, if_false] at hs
              obtain ⟨q1, q2⟩ := hsh b hb' j' v' hs
              exact ⟨q1, by rw [hother b hb' j' q1 (by simp [e2])]; exact q2⟩
          · simp only [e, if_false] at hs
            obtain ⟨q1, q2⟩ := hsh b hb' j' v' hs
            exact ⟨q1, by rw [hother b hb' j' q1 (by simp [e])]; exact q2⟩
        · intro b hb j' hj' hne
          exact hother b hb j' hj' (fun ⟨e1, e2⟩ => hne ⟨by rw [e1], e2⟩)
      · rw [hl] at ha; simp at ha
    · exact ⟨s, by simp [step, stepWith, hget, hj], ⟨hp, hsh⟩, rfl, fun _ _ _ _ _ => rfl⟩

theorem step_good {cfg : Cfg} {s : Sys} (hcfg : CfgOK cfg) (h : Good cfg s) (op : Op) :
    ∃ s', step cfg s op = .ok s' ∧ Good cfg s' := by
  cases op with
  | alloc => obtain ⟨s', _, h1, h2, _⟩ := step_alloc_good hcfg h; exact ⟨s', h1, h2⟩
  | free i => obtain ⟨s', h1, h2, _⟩ := step_free_good i h; exact ⟨s', h1, h2⟩
  | write i j v => obtain ⟨s', h1, h2, _⟩ := step_write_good i j v h; exact ⟨s', h1, h2⟩

theorem run_good {cfg : Cfg} (hcfg : CfgOK cfg) : ∀ (ops : List Op) (s : Sys), Good cfg s →
    ∃ s', run cfg s ops = .ok s' ∧ Good cfg s'
  | [], s, h => ⟨s, rfl, h⟩
  | op :: ops, s, h => by
    obtain ⟨s1, h1, g1⟩ := step_good hcfg h op
    obtain ⟨s2, h2, g2⟩ := run_good hcfg ops s1 g1
    exact ⟨s2, by simp only [run, runWith, h1]; exact h2, g2⟩

theorem newDynamic_good {cfg : Cfg} {sz num : Nat} (hcfg : CfgOK cfg) (h8 : sz % 8 = 0) (hsz : 0 < sz)
    (hnum : 0 < num) : ∃ s, newDynamic cfg sz num = .ok s ∧ Good cfg s := by
  obtain ⟨mp, h0, hi⟩ := initPool_inv (cfg := cfg) (s := create) hcfg h8 hsz hnum rfl
  exact ⟨{ mp := mp }, by simp [newDynamic, h0], Or.inl ⟨[], hi⟩, fun a ha => by simp at ha⟩

theorem newStatic_good {cfg : Cfg} {sz num : Nat} (h8 : sz % 8 = 0) (hsz : 0 < sz) (hnum : 0 < num) :
    Good cfg (newStatic sz num) :=
  ⟨Or.inr ⟨{ cookie := rfl, sz8 := h8, szPos := hsz, numPos := hnum, next := rfl, mem := rfl }, rfl⟩,
   fun a ha => by simp [newStatic] at ha⟩

end CimbaModel.Mempool
