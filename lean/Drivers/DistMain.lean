/-
  DistMain - the Lean side of the sampler correspondence of property C16 (harness/distdrv.c `corr` speaks the same protocol).
  Core Lean only.

  The raw stream comes from the REGENERATED generator of property C15 (Generated/Rng.lean: cmb_random_initialize,
  cmb_random_sfc64, cmb_random_flip), which C15 ties bit-exactly to the library.  On top of it the REGENERATED sampler logic of
  Generated/RngDist.lean is executed in both instantiations:
      F lines   `DistF` (K := Float, IEEE binary64): must equal the library's output ALWAYS (validates the translator)
      Q lines   `DistQ` (K := Rat, exact): what Props/C16.lean proves theorems about; equals the library's output whenever
                the library's floating-point arithmetic is exact for the given parameters (dyadic probabilities, small
                ranges), which is the family the check generates for the Q comparison
  Parameters of type double travel as IEEE bit patterns (hex16) so that both sides see exactly the same value.

    seed <u64>
    dice <N> <a> <b>              N x cmb_random_dice(a, b)
    bern <N> <p>                  N x cmb_random_bernoulli(p)
    binom <N> <n> <p>             N x cmb_random_binomial(n, p)
    loaded <N> <p0> ... <pm-1>    N x cmb_random_loaded_dice(m, p)
    alias <N> <p0> ... <pm-1>     cmb_random_alias_create(m, p), the table, then N x cmb_random_alias_sample
    stdexp <N>                    N x cmb_random_std_exponential (F only; hand model Rng/Zig.lean over the regenerated tables)
    geom <N> <p>                  N x cmb_random_geometric(p) (F only; regenerated logic on top of the ziggurat model, libm log)
    flip <N>                      N x cmb_random_flip
    unit <N>                      N x cmb_random(): the numerator x * 2^53
-/
import CimbaModel.Generated.RngDist
import CimbaModel.Rng.Bridge
import CimbaModel.Rng.Zig
import Drivers.Common

open CimbaModel.Generated CimbaModel.Rng Drivers

def ratOfBits (b : UInt64) : Rat :=
  let e := ((b >>> 52) &&& 0x7ff).toNat
  let m := (b &&& 0xfffffffffffff).toNat
  let mag : Rat :=
    if e == 0 then (m : Rat) / ((2 ^ 1074 : Nat) : Rat)
    else if e ≥ 1075 then (((m + 2 ^ 52) * 2 ^ (e - 1075) : Nat) : Rat)
    else ((m + 2 ^ 52 : Nat) : Rat) / ((2 ^ (1075 - e) : Nat) : Rat)
  if b >>> 63 == 1 then -mag else mag

def parseHex (s : String) : UInt64 :=
  UInt64.ofNat (s.foldl (fun acc c =>
    let d := if c.isDigit then c.toNat - '0'.toNat else if 'a' ≤ c ∧ c ≤ 'f' then c.toNat - 'a'.toNat + 10
             else if 'A' ≤ c ∧ c ≤ 'F' then c.toNat - 'A'.toNat + 10 else 0
    acc * 16 + d) 0 % 2 ^ 64)

def draws (s : RngState) (m : Nat) : Array Nat := Id.run do
  let mut s := s
  let mut a : Array Nat := Array.mkEmpty m
  for _ in [0:m] do
    let r := cmb_random_sfc64 s
    a := a.push r.1.toNat
    s := r.2
  return a

def advance (s : RngState) (k : Nat) : RngState := Id.run do
  let mut s := s
  for _ in [0:k] do
    s := (cmb_random_sfc64 s).2
  return s

/-- N samples of a sampler that is given the next `m` raw outputs as its stream and reports how many it consumed;
    `fF` is the IEEE instantiation (it decides how far the generator advances), `fQ` the exact one -/
def sampleMany {α β : Type} (n m : Nat) (s : RngState) (fF : (Nat → Nat) → α × Nat) (fQ : (Nat → Nat) → β × Nat)
    : Array α × Array β × RngState := Id.run do
  let mut s := s
  let mut accF : Array α := Array.mkEmpty n
  let mut accQ : Array β := Array.mkEmpty n
  for _ in [0:n] do
    let a := draws s m
    let raw : Nat → Nat := fun i => a[i]!
    let rF := fF raw
    let rQ := fQ raw
    accF := accF.push rF.1
    accQ := accQ.push rQ.1
    s := advance s rF.2
  return (accF, accQ, s)

def showList {α : Type} [ToString α] (a : Array α) : String := a.foldl (fun acc x => acc ++ " " ++ toString x) ""

structure St where
  s : RngState := RngState.init

def vecF (ps : List String) : Nat → Float :=
  let a := (ps.map (fun x => Float.ofBits (parseHex x))).toArray
  fun i => a[i]!
def vecQ (ps : List String) : Nat → Rat :=
  let a := (ps.map (fun x => ratOfBits (parseHex x))).toArray
  fun i => a[i]!

def tableLine (tag : String) (n : Nat) (t : Option (Nat × (Nat → Nat) × (Nat → Nat))) : String :=
  match t with
  | none => s!"{tag} alias-table out-of-fuel\n"
  | some (tn, up, al) =>
    s!"{tag} alias-table {tn}" ++ (List.range n).foldl (fun acc i => acc ++ " " ++ hex16 (UInt64.ofNat (up i))) "" ++ " |" ++
      (List.range n).foldl (fun acc i => acc ++ " " ++ toString (al i)) "" ++ "\n"

def stepLine (st : St) (ws : List String) : St × String :=
  match ws with
  | ["seed", x] =>
    match x.toNat? with
    | some v => ({ st with s := cmb_random_initialize (UInt64.ofNat (v % 2 ^ 64)) st.s }, "seed\n")
    | none => (st, "bad-op seed\n")
  | ["unit", n] =>
    let r := sampleMany n.toNat! 1 st.s (fun raw => (raw 0 >>> 11, 1)) (fun raw => (raw 0 >>> 11, 1))
    ({ st with s := r.2.2 }, "F unit" ++ showList r.1 ++ "\nQ unit" ++ showList r.2.1 ++ "\n")
  | ["flip", n] =>
    Id.run do
      let mut s := st.s
      let mut acc := ""
      for _ in [0:n.toNat!] do
        let r := cmb_random_flip s
        acc := acc ++ " " ++ toString r.1
        s := r.2
      return ({ st with s := s }, "F flip" ++ acc ++ "\nQ flip" ++ acc ++ "\n")
  | ["dice", n, a, b] =>
    let a := a.toInt!
    let b := b.toInt!
    let r := sampleMany n.toNat! 1 st.s (fun raw => DistF.cmb_random_dice a b raw 0) (fun raw => DistQ.cmb_random_dice a b raw 0)
    ({ st with s := r.2.2 }, "F dice" ++ showList r.1 ++ "\nQ dice" ++ showList r.2.1 ++ "\n")
  | ["bern", n, p] =>
    let pF := Float.ofBits (parseHex p)
    let pQ := ratOfBits (parseHex p)
    let r := sampleMany n.toNat! 1 st.s (fun raw => DistF.cmb_random_bernoulli pF raw 0) (fun raw => DistQ.cmb_random_bernoulli pQ raw 0)
    ({ st with s := r.2.2 }, "F bern" ++ showList r.1 ++ "\nQ bern" ++ showList r.2.1 ++ "\n")
  | ["binom", n, m, p] =>
    let pF := Float.ofBits (parseHex p)
    let pQ := ratOfBits (parseHex p)
    let m := m.toNat!
    let r := sampleMany n.toNat! m st.s (fun raw => DistF.cmb_random_binomial m pF raw 0) (fun raw => DistQ.cmb_random_binomial m pQ raw 0)
    ({ st with s := r.2.2 }, "F binom" ++ showList r.1 ++ "\nQ binom" ++ showList r.2.1 ++ "\n")
  | "loaded" :: n :: ps =>
    let m := ps.length
    let r := sampleMany n.toNat! 1 st.s (fun raw => DistF.cmb_random_loaded_dice m (vecF ps) raw 0)
      (fun raw => DistQ.cmb_random_loaded_dice m (vecQ ps) raw 0)
    let okF := DistF.sums_to_one m (vecF ps)
    let okQ := DistQ.sums_to_one m (vecQ ps)
    ({ st with s := r.2.2 }, s!"F loaded admissible={okF}" ++ showList r.1 ++ s!"\nQ loaded admissible={okQ}" ++ showList r.2.1 ++ "\n")
  | "alias" :: n :: ps =>
    let m := ps.length
    let tF := DistF.cmb_random_alias_create m (vecF ps) (2 * m + 2)
    let tQ := DistQ.cmb_random_alias_create m (vecQ ps) (2 * m + 2)
    let head := tableLine "F" m (tF.map (fun t => (t.n, t.uprob, t.alias))) ++ tableLine "Q" m (tQ.map (fun t => (t.n, t.uprob, t.alias)))
    match tF, tQ with
    | some tF, some tQ =>
      let r := sampleMany n.toNat! 2 st.s (fun raw => DistF.cmb_random_alias_sample tF raw 0) (fun raw => DistQ.cmb_random_alias_sample tQ raw 0)
      ({ st with s := r.2.2 }, head ++ "F alias" ++ showList r.1 ++ "\nQ alias" ++ showList r.2.1 ++ "\n")
    | _, _ => (st, head)
  | ["stdexp", n] =>
    let T := Zig.expTab Float
    let r := sampleMany n.toNat! 600 st.s
      (fun raw => match Zig.stdExp T Float.exp 0.0 raw 200 0 with
                  | some (x, k) => (hex16 x.toBits, k)
                  | none => ("out-of-fuel", 1)) (fun _ => ((), 0))
    ({ st with s := r.2.2 }, "F stdexp" ++ showList r.1 ++ "\n")
  | ["geom", n, p] =>
    let T := Zig.expTab Float
    let pF := Float.ofBits (parseHex p)
    let r := sampleMany n.toNat! 600 st.s
      (fun raw => match Zig.stdExp T Float.exp 0.0 raw 200 0 with
                  | some (x, k) => (toString (DistF.cmb_random_geometric pF Float.log x 0.0 0.0), k)
                  | none => ("out-of-fuel", 1)) (fun _ => ((), 0))
    ({ st with s := r.2.2 }, "F geom" ++ showList r.1 ++ "\n")
  | op :: _ => (st, s!"bad-op {op}\n")
  | [] => (st, "")

def main (_ : List String) : IO Unit := do
  let stdin ← IO.getStdin
  let stdout ← IO.getStdout
  let _ ← loop stdin stdout stepLine ({} : St)
