/-
  CtxMain - the Lean side of the C03 ties (core Lean only).

    frame  TRAMP FN CP CTX EXITF BASE     the model's image of the 80 bytes below stack_base after
                                          cmi_coroutine_context_init on a 0xa5-filled stack (from the
                                          regenerated store list), and the model's `initFrame`
    entry  TRAMP FN CP CTX EXITF BASE     `exec switchCode` then `exec trampCode` on that frame, then the
                                          function returns CTX+1: what the machine model says at function
                                          entry and at exit-function entry
    rt     RBX RBP R12 R13 R14 R15 MXCSR RFLAGS MSG1 MSG2
                                          the model of harness/ctxprobe.asm:ctx_roundtrip on the regenerated
                                          switch code (double switch through a scratch context)
    n K / create / start / resume / transfer / yield / exit / ret / stop / reset
                                          the bookkeeping machine, same protocol as `ctxdrv script`
  All numbers of the machine commands are hexadecimal, those of the script are decimal.
-/
import CimbaModel.Ctx.X86
import CimbaModel.Ctx.Frame
import CimbaModel.Ctx.Coroutine
import CimbaModel.Generated.CtxAsm
import Drivers.Common

open CimbaModel.Ctx CimbaModel.Generated Drivers

def hexDigit (c : Char) : Option Nat :=
  if '0' ≤ c ∧ c ≤ '9' then some (c.toNat - '0'.toNat)
  else if 'a' ≤ c ∧ c ≤ 'f' then some (c.toNat - 'a'.toNat + 10)
  else if 'A' ≤ c ∧ c ≤ 'F' then some (c.toNat - 'A'.toNat + 10)
  else none

def parseHex (s : String) : Option Nat :=
  if s.isEmpty then none
  else s.toList.foldl (fun acc c => match acc, hexDigit c with
    | some a, some d => some (a * 16 + d)
    | _, _ => none) (some 0)

def hx (w : Nat) : String := String.ofList (Nat.toDigits 16 w)
def hw (w : W) : String := hx w.toNat

def w64 (n : Nat) : W := BitVec.ofNat 64 n

/-- a state with every register zero and the given memory -/
def blank (mem : W → W) : State :=
  { rax := 0, rcx := 0, rdx := 0, rbx := 0, rsp := 0, rbp := 0, rsi := 0, rdi := 0, r8 := 0, r9 := 0, r10 := 0,
    r11 := 0, r12 := 0, r13 := 0, r14 := 0, r15 := 0, rflags := 0x202#64, mxcsr := 0x1f80#32, rip := 0, mem := mem,
    ok := true }

/-! ### frame -/

def patHalf : BitVec 32 := 0xa5a5a5a5#32

def frameWordsOf (tramp fn cp ctx exitf base : W) : List W :=
  let m := runStores (fun _ => patHalf) (currentStores tramp fn cp ctx exitf base)
  -- ascending from base - 80: the word below the frame, then the nine words of the frame
  (mk64 (m 76) (m 80)) :: (List.range 9).map (image m)

def cmdFrame (a : List W) : String :=
  match a with
  | [tramp, fn, cp, ctx, exitf, base] =>
    let ws := frameWordsOf tramp fn cp ctx exitf base
    let model := initFrame tramp fn cp ctx exitf base
    let aligned := (currentStores tramp fn cp ctx exitf base).all CStore.aligned
    s!"frame sp={hw (base - w64 currentSpBelow)} aligned={aligned} words {" ".intercalate (ws.map hw)} initFrame {" ".intercalate (model.map hw)}\n"
  | _ => "bad-args\n"

/-! ### entry -/

/-- memory holding the frame image at base-72.., the word `base - 72` at `slotNew`, anything else 0 -/
def memWithFrame (ws : List W) (base slotNew : W) : W → W := fun a =>
  if a = slotNew then base - 72#64
  else
    let off := (a - (base - 72#64)).toNat
    if off % 8 = 0 ∧ off / 8 < 9 then ws.getD (off / 8 + 1) 0 else 0

def cmdEntry (a : List W) : String :=
  match a with
  | [tramp, fn, cp, ctx, exitf, base] =>
    let ws := frameWordsOf tramp fn cp ctx exitf base
    let mainSp : W := 0x7ffd00001000#64
    let slotOld : W := 0x600000#64
    let slotNew : W := 0x600100#64
    let s0 := { blank (memWithFrame ws base slotNew) with rsp := mainSp, rdi := slotOld, rsi := slotNew, rdx := 0x77#64, rip := 0x400000#64 }
    let s1 := exec switchCode s0
    let e := exec trampCode s1
    let df := (e.rflags &&& 0x400#64) != 0#64
    -- the function returns ctx + 1 as the ABI says: pops its return address, callee-saved registers intact
    let t := { e with rip := e.mem e.rsp, rsp := e.rsp + 8#64, rax := ctx + 1#64 }
    let off := (t.rip - tramp).toNat
    match codeFrom trampCode off with
    | none => s!"entry at_tramp={decide (s1.rip = tramp)} rsp={hw e.rsp} rdi={hw e.rdi} rsi={hw e.rsi} mxcsr={hx e.mxcsr.toNat} df={if df then 1 else 0} ret={hw (e.mem e.rsp)} rbp={hw e.rbp} r15={hw e.r15} rip={hw e.rip} | no-code-at-return-address\n"
    | some tail =>
      let x := exec tail t
      s!"entry at_tramp={decide (s1.rip = tramp)} rsp={hw e.rsp} rdi={hw e.rdi} rsi={hw e.rsi} mxcsr={hx e.mxcsr.toNat} df={if df then 1 else 0} ret={hw (e.mem e.rsp)} rbp={hw e.rbp} r15={hw e.r15} rip={hw e.rip} | exit_rsp={hw x.rsp} exit_rdi={hw x.rdi} exit_rip={hw x.rip} ok={x.ok}\n"
  | _ => "bad-args\n"

/-! ### roundtrip -/

def cmdRt (a : List W) : String :=
  match a with
  | [rbx, rbp, r12, r13, r14, r15, mx, fl, msg1, msg2] =>
    let slotA : W := 0x600000#64
    let slotB : W := 0x600008#64
    let otherTop : W := 0x700000#64
    let rtOther : W := 0x401000#64
    let retA : W := 0x400100#64
    let R : W := 0x7ffd00002000#64          -- rsp before `call` on the A side
    let fr : List W := [0x1515151515151515#64, 0x1414141414141414#64, 0x1313131313131313#64, 0x1212121212121212#64,
      0x0b0b0b0b0b0b0b0b#64, 0x0505050505050505#64, mk64 0x1f80#32 0#32, 0x2#64, rtOther]
    let mem0 : W → W := fun x =>
      if x = slotB then otherTop - 72#64
      else if x = R - 8#64 then retA
      else
        let off := (x - (otherTop - 72#64)).toNat
        if off % 8 = 0 ∧ off / 8 < 9 then fr.getD (off / 8) 0 else 0x5a5a5a5a5a5a5a5a#64
    let mxv : BitVec 32 := (mx.truncate 32) &&& 0xffc0#32
    let flv : W := (fl &&& 0xcd5#64) ||| 0x202#64
    let sA := { blank mem0 with rbx := rbx, rbp := rbp, r12 := r12, r13 := r13, r14 := r14, r15 := r15, mxcsr := mxv, rflags := flv, rsp := R - 8#64, rdi := slotA, rsi := slotB, rdx := msg1, rip := 0x400000#64 }
    let s1 := exec switchCode sA
    let otherMsg := s1.rax
    -- what rt_other does before it calls the switch again
    let sp2 := s1.rsp - 8#64
    let sB := { s1 with rbx := 0xdeadbeefdeadbe01#64, rbp := 0xdeadbeefdeadbe02#64, r12 := 0xdeadbeefdeadbe03#64,
                        r13 := 0xdeadbeefdeadbe04#64, r14 := 0xdeadbeefdeadbe05#64, r15 := 0xdeadbeefdeadbe06#64,
                        mxcsr := (mxv ^^^ 0xffc0#32) &&& 0xffc0#32,
                        rflags := popfValue s1.rflags (((flv ^^^ 0xcd5#64) &&& 0xcd5#64) ||| 0x2#64),
                        rsp := sp2, mem := upd s1.mem sp2 0x401050#64,
                        rdi := slotB, rsi := slotA, rdx := msg2, rip := 0x400000#64 }
    let s3 := exec switchCode sB
    let delta := s3.rsp - R
    s!"rt {hw s3.rbx} {hw s3.rbp} {hw s3.r12} {hw s3.r13} {hw s3.r14} {hw s3.r15} {hx s3.mxcsr.toNat} {hw (s3.rflags &&& userMask)} {hw s3.rax} {hw otherMsg} {hw delta} | other_rip_ok={decide (s1.rip = rtOther)} back_rip_ok={decide (s3.rip = retA)} ok={s3.ok}\n"
  | _ => "bad-args\n"

/-! ### bookkeeping script -/

open CimbaModel.Ctx.Co in
structure Sess where
  st : St := CimbaModel.Ctx.Co.init
  n : Nat := 1
  dead : Bool := false

open CimbaModel.Ctx.Co in
def optStr : Option Nat → String
  | some k => toString k
  | none => "-"

open CimbaModel.Ctx.Co in
def stateStr (s : St) (n : Nat) : String := Id.run do
  let mut o := s!" | cur={s.cur} |"
  for i in [0:n] do
    let c := s.co i
    o := o ++ s!" {i}:{c.status.toNat},{c.exitv},{optStr c.parent},{optStr c.caller}"
  return o ++ "\n"

open CimbaModel.Ctx.Co in
def evStr : Ev → String
  | .none => "none"
  | .enter c ctx => s!"enter {c} {ctx}"
  | .deliver c v k => s!"deliver {c} {v} {optStr k}"

open CimbaModel.Ctx.Co in
def parseOp (ws : List String) : Option Op :=
  -- a trailing "@depth" token only matters to the C side
  let ws := ws.filter (fun w => !w.startsWith "@")
  match ws with
  | ["create", c, x] => do some (.create (← c.toNat?) (← x.toNat?))
  | ["start", c, m] => do some (.start (← c.toNat?) (← m.toNat?))
  | ["resume", c, m] => do some (.resume (← c.toNat?) (← m.toNat?))
  | ["transfer", c, m] => do some (.transfer (← c.toNat?) (← m.toNat?))
  | ["yield", m] => do some (.yield (← m.toNat?))
  | ["exit", v] => do some (.exit (← v.toNat?))
  | ["ret", v] => do some (.ret (← v.toNat?))
  | ["stop", c, v] => do some (.stop (← c.toNat?) (← v.toNat?))
  | ["reset", c] => do some (.reset (← c.toNat?))
  | _ => none

open CimbaModel.Ctx.Co in
/-- a rejected operation (fault) leaves the state as it was: the generator uses this to keep scripts valid -/
def scriptStep (ss : Sess) (ws : List String) : Sess × String :=
  match ws with
  | ["n", k] => ({ ss with n := k.toNat?.getD 1 }, "")
  | _ =>
    match parseOp ws with
    | none => (ss, "bad-op\n")
    | some op =>
      match CimbaModel.Ctx.Co.step ss.st op with
      | .error e => (ss, s!"fault {repr e}\n")
      | .ok (s', ev) => ({ ss with st := s' }, evStr ev ++ stateStr s' ss.n)

def stepLine (ss : Sess) (ws : List String) : Sess × String :=
  match ws with
  | "frame" :: rest => (ss, match rest.mapM parseHex with
      | some a => cmdFrame (a.map w64) | none => "bad-args\n")
  | "entry" :: rest => (ss, match rest.mapM parseHex with
      | some a => cmdEntry (a.map w64) | none => "bad-args\n")
  | "rt" :: rest => (ss, match rest.mapM parseHex with
      | some a => cmdRt (a.map w64) | none => "bad-args\n")
  | "end" :: _ => (ss, "end\n")
  | w :: _ => if w.startsWith "#" then (ss, "") else scriptStep ss ws
  | [] => (ss, "")

def main : IO Unit := do
  let stdin ← IO.getStdin
  let stdout ← IO.getStdout
  let _ ← loop stdin stdout stepLine ({} : Sess)
  return ()
