/-
  hhspec - evaluates Monitor.C02 on a log.  Input lines: "<op words> => <result words>".
  Prints "ok <n>" if all n steps are allowed by the keyed-priority-queue specification,
  otherwise "bad <index> <line>".
-/
import CimbaModel.Monitor.C02
import CimbaModel.Generated.Orders
import CimbaModel.HashHeap.SpecOrders
import Drivers.Common

open CimbaModel CimbaModel.HashHeap CimbaModel.Monitor.C02 Drivers

def orderByName : String → Option Order
  | "default" => some CimbaModel.Generated.default_order_check
  | "event" => some CimbaModel.Generated.heap_order_check
  | "guard" => some CimbaModel.Generated.guard_queue_check
  | "holder" => some CimbaModel.Generated.holder_queue_check
  | "pq" => some CimbaModel.Generated.compare_func
  | "spec-event" => some CimbaModel.HashHeap.SpecOrders.eventB
  | "spec-guard" => some CimbaModel.HashHeap.SpecOrders.guardB
  | "spec-holder" => some CimbaModel.HashHeap.SpecOrders.holderB
  | "spec-pq" => some CimbaModel.HashHeap.SpecOrders.pqB
  | "spec-default" => some CimbaModel.HashHeap.SpecOrders.defaultB
  | _ => none

def pat (s : String) : Option Nat := if s = "*" then some anyItem else s.toNat?

def parseOp : List String → Option Op
  | ["init", e, ord] => do some (.init (← e.toNat?) (← orderByName ord))
  | ["enq", k, a, b, c, d, dk, ik] => do
    some (.enq (← k.toNat?) ⟨← pat a, ← pat b, ← pat c, ← pat d⟩ (← dk.toInt?) (← ik.toInt?))
  | ["deq"] => some .deq
  | ["peek"] => some .peek
  | ["rm", k] => do some (.rm (← k.toNat?))
  | ["rep", k, d, i] => do some (.rep (← k.toNat?) (← d.toInt?) (← i.toInt?))
  | ["item", k] => do some (.item (← k.toNat?))
  | ["dk", k] => do some (.dk (← k.toNat?))
  | ["ik", k] => do some (.ik (← k.toNat?))
  | ["isq", k] => do some (.isq (← k.toNat?))
  | ["pf", a, b, c, d] => do some (.pf ⟨← pat a, ← pat b, ← pat c, ← pat d⟩)
  | ["pc", a, b, c, d] => do some (.pc ⟨← pat a, ← pat b, ← pat c, ← pat d⟩)
  | ["px", a, b, c, d] => do some (.px ⟨← pat a, ← pat b, ← pat c, ← pat d⟩)
  | ["count"] => some .count
  | ["clear"] => some .clear
  | ["reset"] => some .reset
  | ["dump"] => some .dump
  | _ => none

def parseObs (op : Op) : List String → Obs
  | ["none"] => .none
  | ["ok"] => .okUnit
  | ["ok", n] =>
    match op with
    | .dk _ | .ik _ => match n.toInt? with | some v => .okInt v | none => .other n
    | _ => match n.toNat? with | some v => .okNat v | none => .other n
  | ["ok", a, b, c, d] =>
    match a.toNat?, b.toNat?, c.toNat?, d.toNat? with
    | some a, some b, some c, some d => .okItem ⟨a, b, c, d⟩
    | _, _, _, _ => .other "item"
  | ["ok", k, a, b, c, d, dk, ik] =>
    match k.toNat?, a.toNat?, b.toNat?, c.toNat?, d.toNat?, dk.toInt?, ik.toInt? with
    | some k, some a, some b, some c, some d, some dk, some ik =>
      .okTag { key := k, item := ⟨a, b, c, d⟩, d := dk, i := ik }
    | _, _, _, _, _, _, _ => .other "tag"
  | ws => .other (" ".intercalate ws)

partial def run (h : IO.FS.Stream) (s : MSt) (n : Nat) : IO Unit := do
  let line ← h.getLine
  if line.isEmpty then
    IO.println s!"ok {n}"
    return
  match line.splitOn " => " with
  | [l, r] =>
    match parseOp (words l) with
    | none => IO.println s!"bad {n} unparsable op: {l}"
    | some op =>
      match step s op (parseObs op (words r)) with
      | some s' => run h s' (n + 1)
      | none => IO.println s!"bad {n} {line.trimAscii.toString}"
  | _ => IO.println s!"bad {n} unparsable line: {line.trimAscii.toString}"

def main : IO Unit := do run (← IO.getStdin) {} 0
