/-
  expmain - C19 model driver.
    expmain log        stdin: output of harness/expdrv (P / S / E lines; others ignored).
                       stdout: "verdict ok|bad <why>" (Monitor.C19 on the log) and
                               "replay ok <steps> <digest of the schedule>|bad <why>" (the log as a behaviour of the model)
    expmain inventory  prints one line per variable of Generated.tlsInventory:
                       "<ok|BAD> <class|unclassified> <thread-local|process-wide> <file> <function|-> <name>"
-/
import CimbaModel.Monitor.C19
import CimbaModel.Experiment.Current
import CimbaModel.Experiment.Isolation
import CimbaModel.Generated.TlsInventory
import Drivers.Common

open CimbaModel CimbaModel.Experiment CimbaModel.Monitor.C19 Drivers

partial def readAll (h : IO.FS.Stream) (acc : Array String) : IO (Array String) := do
  let line ← h.getLine
  if line.isEmpty then return acc else readAll h (acc.push line)

def parseLog (lines : Array String) : Except String Log := do
  let mut p : Option Params := none
  let mut evs : Array Ev := #[]
  for line in lines do
    match words line with
    | ["P", w, n, sz, base] =>
      match w.toNat?, n.toNat?, sz.toNat?, base.toNat? with
      | some w, some n, some sz, some base => p := some { n := n, W := w, sz := sz, base := base }
      | _, _, _, _ => throw s!"bad P line: {line}"
    | ["S", _, t, i, a] =>
      match t.toNat?, i.toNat?, a.toNat? with
      | some t, some i, some a => evs := evs.push (.start t i a)
      | _, _, _ => throw s!"bad S line: {line}"
    | ["E", _, t, i] =>
      match t.toNat?, i.toNat? with
      | some t, some i => evs := evs.push (.stop t i)
      | _, _ => throw s!"bad E line: {line}"
    | _ => pure ()
  match p with
  | some q => pure { p := q, evs := evs.toList }
  | none => throw "no P line"

def actorCode : Actor → Nat
  | .main => 0
  | .worker w => w + 1

def className : Class → String
  | .ResetByTrialInit => "ResetByTrialInit" | .PureMemo => "PureMemo" | .Scratch => "Scratch"
  | .AddressOnly => "AddressOnly" | .ConstOrImmutable => "ConstOrImmutable"
  | .SharedSynchronised => "SharedSynchronised" | .LogOutputOnly => "LogOutputOnly" | .Leaks => "Leaks"

def main (args : List String) : IO UInt32 := do
  let out ← IO.getStdout
  match args with
  | ["inventory"] =>
    for e in Generated.tlsInventory do
      let cls := match classify e with | some c => className c | none => "unclassified"
      let ok := if entryOK e then "ok" else "BAD"
      let tl := if e.isThreadLocal then "thread-local" else "process-wide"
      let fn := if e.function == "" then "-" else e.function
      out.putStrLn s!"{ok} {cls} {tl} {e.file} {fn} {e.name}"
    return 0
  | _ =>
    let lines ← readAll (← IO.getStdin) #[]
    match parseLog lines with
    | .error e => out.putStrLn s!"verdict bad {e}"; out.putStrLn s!"replay bad {e}"; return 1
    | .ok l =>
      match verdict l with
      | .ok _ => out.putStrLn "verdict ok"
      | .error e => out.putStrLn s!"verdict bad {e}"
      match replay currentCode l with
      | .ok r =>
        let h := r.sched.foldl (fun h a => fnvNat h (actorCode a)) fnvOffset
        out.putStrLn s!"replay ok {r.sched.length} {hex16 h}"
      | .error e => out.putStrLn s!"replay bad {e}"
      return 0
