/-
  simmain - the Lean side of the process-layer correspondence: parses the scenario language of
  harness/simdrv.c, runs CimbaModel.Sim and prints the same log and final state dump.
-/
import CimbaModel.Sim.Run
import Drivers.Common

open CimbaModel CimbaModel.Sim CimbaModel.Event Drivers
open CimbaModel.HashHeap (HH)

def parseCap (s : String) : Nat := if s.startsWith "U" then unlimited else s.toNat?.getD 0

def I (s : String) : Int := s.toInt?.getD 0
def N (s : String) : Nat := s.toNat?.getD 0

def parseCmd (ws : List String) : Option Cmd :=
  match ws with
  | ["hold", d] => some (.hold (I d))
  | ["yield"] => some .yield
  | ["tadd", v, d, s] => some (.timerAdd (N v) (I d) (I s))
  | ["tset", v, d, s] => some (.timerSet (N v) (I d) (I s))
  | ["tcancel", v] => some (.timerCancel (N v))
  | ["tclear"] => some .timersClear
  | ["tclearo", q] => some (.timersClearOf (N q))
  | ["taddo", q, d, s] => some (.timerAddOf (N q) (I d) (I s))
  | ["resume", p, s] => some (.resume (N p) (I s))
  | ["intr", p, s, pr] => some (.interrupt (N p) (I s) (I pr))
  | ["stop", p, v] => some (.stop (N p) (I v))
  | ["start", p] => some (.start (N p))
  | ["exit", v] => some (.exit (I v))
  | ["prio", p, v] => some (.prioSet (N p) (I v))
  | ["waitp", p] => some (.waitProc (N p))
  | ["usched", v, d, pr] => some (.schedUser (N v) (I d) (I pr))
  | ["ucancel", v] => some (.cancelUser (N v))
  | ["upcancel"] => some .cancelUserAll
  | ["waite", v] => some (.waitEvent (N v))
  | ["acq", r] => some (.acquire (N r))
  | ["pre", r] => some (.preempt (N r))
  | ["rel", r] => some (.release (N r))
  | ["pacq", p, n] => some (.poolAcquire (N p) (N n))
  | ["ppre", p, n] => some (.poolPreempt (N p) (N n))
  | ["prel", p, n] => some (.poolRelease (N p) (N n))
  | ["bget", b, n] => some (.bufGet (N b) (N n))
  | ["bput", b, n] => some (.bufPut (N b) (N n))
  | ["oget", q] => some (.oqGet (N q))
  | ["oput", q, o] => some (.oqPut (N q) (N o))
  | ["kget", k] => some (.pqGet (N k))
  | ["kput", k, o, pr, v] => some (.pqPut (N k) (N o) (I pr) (N v))
  | ["kcancel", k, v] => some (.pqCancel (N k) (N v))
  | ["kreprio", k, v, pr] => some (.pqReprio (N k) (N v) (I pr))
  | ["kpos", k, v] => some (.pqPos (N k) (N v))
  | ["cwait", c, kd, a, b] => some (.condWait (N c) (N kd) (N a) (N b))
  | ["csig", c] => some (.condSignal (N c))
  | ["ccancel", c, p] => some (.condCancel (N c) (N p))
  | ["cremove", c, p] => some (.condRemove (N c) (N p))
  | ["flag", k, v] => some (.setFlag (N k) (I v))
  | ["rstart", k, i] => some (.recStart (N k) (N i))
  | ["rstop", k, i] => some (.recStop (N k) (N i))
  | _ => none

def newGuard (w : World) (isCond : Bool := false) : World × Nat :=
  ({ w with guards := w.guards.push { q := mkHH 3, isCond := isCond } }, w.guards.size)

partial def readAll (h : IO.FS.Stream) (acc : Array String) : IO (Array String) := do
  let line ← h.getLine
  if line.isEmpty then return acc
  let t := line.trimAscii.toString
  if t.isEmpty then readAll h acc else readAll h (acc.push t)

def histStr (k : String) (i : Nat) (h : Array (Int × Int)) : String :=
  h.foldl (fun s (x, t) => s ++ s!" {x},{t}") s!"H {k} {i} {h.size} :"

/-- what `cmb_timeseries_summarize` + `cmb_wtdsummary_mean` must give for this history, as exact integers: the total weight
    (sum of the durations of all samples but the last) and the weighted sum of the values; `big` when the numbers leave the
    range in which the library's doubles are exact to the unit -/
def wsumStr (k : String) (i : Nat) (h : Array (Int × Int)) : String :=
  let n := h.size
  if n < 2 then s!"W {k} {i} n={n} wsum=0 wx=0" else
  let t0 := (h[0]!).2
  let tn := (h[n - 1]!).2
  let big := h.any (fun (x, _) => x.natAbs ≥ 2 ^ 40) || (tn - t0).natAbs ≥ 2 ^ 20
  if big then s!"W {k} {i} n={n} wsum=big wx=big" else
  let wx := (List.range (n - 1)).foldl (fun acc j => acc + (h[j]!).1 * ((h[j + 1]!).2 - (h[j]!).2)) (0 : Int)
  if tn - t0 = 0 then s!"W {k} {i} n={n} wsum=0 wx=0" else
  s!"W {k} {i} n={n} wsum={tn - t0} wx={wx}"

def gcount (w : World) (g : Nat) : Nat := (w.guards[g]?.map (·.q.count)).getD 0

def dump (w : World) : Array String := Id.run do
  let mut o : Array String := #[]
  o := o.push s!"Q now={w.now} events={w.ev.pending.length}"
  for i in [0:w.procs.size] do
    let p := w.proc i
    o := o.push s!"P {i} st={p.status.toNat} exit={if p.status = .finished then p.exitVal else 0} prio={p.prio}"
  for i in [0:w.res.size] do
    match w.res[i]? with
    | some r =>
      let h : Int := match r.holder with | some p => (p : Int) | none => -1
      o := o.push s!"R {i} holder={h} inuse={if r.holder.isSome then 1 else 0} wait={gcount w r.guard}"
    | none => pure ()
  for i in [0:w.pools.size] do
    match w.pools[i]? with
    | some x =>
      let held := ",".intercalate ((List.range w.procs.size).map fun p => toString (heldAmount w i p))
      o := o.push s!"L {i} inuse={x.inUse} wait={gcount w x.guard} held={held}"
    | none => pure ()
  for i in [0:w.bufs.size] do
    match w.bufs[i]? with
    | some x => o := o.push s!"B {i} level={x.level} wait={gcount w x.front},{gcount w x.rear}"
    | none => pure ()
  for i in [0:w.oqs.size] do
    match w.oqs[i]? with
    | some x => o := o.push s!"O {i} len={x.items.length} wait={gcount w x.front},{gcount w x.rear}"
    | none => pure ()
  for i in [0:w.pqs.size] do
    match w.pqs[i]? with
    | some x => o := o.push s!"K {i} len={x.queue.count} wait={gcount w x.front},{gcount w x.rear}"
    | none => pure ()
  for i in [0:w.conds.size] do
    o := o.push s!"C {i} wait={gcount w (w.conds.getD i 0)}"
  for i in [0:w.res.size] do
    o := o.push (histStr "res" i (w.res[i]?.map (·.hist)).get!)
  for i in [0:w.pools.size] do
    o := o.push (histStr "pool" i (w.pools[i]?.map (·.hist)).get!)
  for i in [0:w.bufs.size] do
    o := o.push (histStr "buf" i (w.bufs[i]?.map (·.hist)).get!)
  for i in [0:w.oqs.size] do
    o := o.push (histStr "oq" i (w.oqs[i]?.map (·.hist)).get!)
  for i in [0:w.pqs.size] do
    o := o.push (histStr "pq" i (w.pqs[i]?.map (·.hist)).get!)
  for i in [0:w.res.size] do
    o := o.push (wsumStr "res" i (w.res[i]?.map (·.hist)).get!)
  for i in [0:w.pools.size] do
    o := o.push (wsumStr "pool" i (w.pools[i]?.map (·.hist)).get!)
  for i in [0:w.bufs.size] do
    o := o.push (wsumStr "buf" i (w.bufs[i]?.map (·.hist)).get!)
  for i in [0:w.oqs.size] do
    o := o.push (wsumStr "oq" i (w.oqs[i]?.map (·.hist)).get!)
  for i in [0:w.pqs.size] do
    o := o.push (wsumStr "pq" i (w.pqs[i]?.map (·.hist)).get!)
  -- second life: what every object must report after terminate + initialize (the driver ends the run first);
  -- not after a capped run
  if w.log.contains "cap" then return o
  for i in [0:w.res.size] do
    o := o.push s!"Z res {i} inuse=0 hist=0"
  for i in [0:w.pools.size] do
    o := o.push s!"Z pool {i} inuse=0 avail={(w.pools[i]?.map (·.cap)).getD 0} hist=0"
  for i in [0:w.bufs.size] do
    o := o.push s!"Z buf {i} level=0 space={(w.bufs[i]?.map (·.cap)).getD 0} hist=0"
  for i in [0:w.oqs.size] do
    o := o.push s!"Z oq {i} len=0 hist=0"
  for i in [0:w.pqs.size] do
    o := o.push s!"Z pq {i} len=0 hist=0"
  return o

def main : IO Unit := do
  let lines ← readAll (← IO.getStdin) #[]
  let mut w : World := {}
  let mut subs : Array (Nat × Nat × Nat × Nat) := #[]
  let mut autostart : Array Bool := #[]
  let mut i := 0
  while i < lines.size do
    let ws := words lines[i]!
    match ws with
    | ["res"] =>
      let (w', g) := newGuard w
      w := { w' with res := w'.res.push { guard := g } }
      i := i + 1
    | ["pool", c] =>
      let (w', g) := newGuard w
      w := { w' with pools := w'.pools.push { cap := parseCap c, holders := mkHH 3, guard := g } }
      i := i + 1
    | ["buf", c] =>
      let (w1, f) := newGuard w
      let (w2, r) := newGuard w1
      w := { w2 with bufs := w2.bufs.push { cap := parseCap c, front := f, rear := r } }
      i := i + 1
    | ["oq", c] =>
      let (w1, f) := newGuard w
      let (w2, r) := newGuard w1
      w := { w2 with oqs := w2.oqs.push { cap := parseCap c, front := f, rear := r } }
      i := i + 1
    | ["pq", c] =>
      let (w1, f) := newGuard w
      let (w2, r) := newGuard w1
      -- INITIAL_QUEUE_SIZE of cmb_priorityqueue.c
      w := { w2 with pqs := w2.pqs.push { cap := parseCap c, queue := mkHH 3, front := f, rear := r } }
      i := i + 1
    | ["cond"] =>
      let (w', g) := newGuard w true
      w := { w' with conds := w'.conds.push g }
      i := i + 1
    | ["sub", c, k, x, wh] =>
      subs := subs.push (N c, N k, N x, N wh)
      i := i + 1
    | ["proc", pr, au, n] =>
      let n := N n
      let cmds := (lines.extract (i + 1) (i + 1 + n)).map fun l =>
        ((parseCmd (words l)).getD .yield, l)
      w := { w with procs := w.procs.push { prio := I pr, script := cmds } }
      autostart := autostart.push (au ≠ "0")
      i := i + 1 + n
    | _ => i := i + 1
  -- subscriptions: the condition's guard becomes an observer (LIFO) of the object's guard
  for (c, k, x, wh) in subs do
    let g? : Option Nat :=
      if k = 0 then w.res[x]?.map (·.guard)
      else if k = 1 then w.pools[x]?.map (·.guard)
      else if k = 2 then w.bufs[x]?.map fun b => if wh = 0 then b.front else b.rear
      else if k = 3 then w.oqs[x]?.map fun b => if wh = 0 then b.front else b.rear
      else if k = 4 then w.pqs[x]?.map fun b => if wh = 0 then b.front else b.rear
      else if k = 5 then (if x = c then none else w.conds[x]?)      -- a condition observing another condition
      else none
    match g?, w.conds[c]? with
    | some g, some cg => w := { w with guards := w.guards.modify g fun gd => { gd with observers := cg :: gd.observers } }
    | _, _ => pure ()
  for p in [0:w.procs.size] do
    if autostart.getD p false then
      w := (sched w aStart (p + 1) 0 w.now (w.proc p).prio).1
  w := runAll 3000 w
  let out ← IO.getStdout
  for l in w.log do
    out.putStrLn l
  match w.fault with
  | some f => out.putStrLn s!"FAULT {f}"
  | none => pure ()
  for l in dump w do
    out.putStrLn l
