/-
  GammaMain - correspondence of the REGENERATED leading part of cmb_random_std_gamma (the small-shape guard: recursive call with
  shape + 1, one cmb_random() draw AFTER it, g * pow(u, 1/shape)) with the library (property C16).  Core Lean only.
  Kept apart from DistMain so that the other correspondences survive a source in which cmb_random_std_gamma has another shape.

    gboost <shape> <g> <u53>     shape, g as IEEE bit patterns (hex16); g = what the library returned for
                                 cmb_random_std_gamma(shape + 1.0) after some seed, u53 = the numerator of the cmb_random() that the
                                 library drew next.  Output: the bit pattern of DistF.cmb_random_std_gamma(shape) fed with these,
                                 to be compared with what the library returned for cmb_random_std_gamma(shape) after the same seed.
-/
import CimbaModel.Generated.RngDist
import Drivers.Common

open CimbaModel.Generated Drivers

def parseHex (s : String) : UInt64 :=
  UInt64.ofNat (s.foldl (fun acc c =>
    let d := if c.isDigit then c.toNat - '0'.toNat else if 'a' ≤ c ∧ c ≤ 'f' then c.toNat - 'a'.toNat + 10
             else if 'A' ≤ c ∧ c ≤ 'F' then c.toNat - 'A'.toNat + 10 else 0
    acc * 16 + d) 0 % 2 ^ 64)

def stepLine (st : Unit) (ws : List String) : Unit × String :=
  match ws with
  | ["gboost", shape, g, u] =>
    let shape := Float.ofBits (parseHex shape)
    let g := Float.ofBits (parseHex g)
    -- the recursive call is abstract: it consumed n words (here 0) and the NEXT word is the one behind u
    let raw : Nat → Nat := fun _ => u.toNat! <<< 11
    let r := DistF.cmb_random_std_gamma shape Float.pow g (0.0 / 0.0) 0 raw 0
    (st, s!"gboost {hex16 r.1.toBits} draws={r.2}\n")
  | op :: _ => (st, s!"bad-op {op}\n")
  | [] => (st, "")

def main (_ : List String) : IO Unit := do
  let stdin ← IO.getStdin
  let stdout ← IO.getStdout
  let _ ← loop stdin stdout stepLine ()
