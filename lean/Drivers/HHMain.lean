/-
  HHMain - the Lean side of the hashheap correspondence (exact state), DESIGN.md §2.3.
  Same line protocol as harness/hhdrv.c.
-/
import CimbaModel.HashHeap.Model
import CimbaModel.Generated.Orders
import Drivers.Common

open CimbaModel CimbaModel.HashHeap Drivers

structure St where
  hh : Option HH := none
  lt : Order := CimbaModel.Generated.default_order_check

def digest (s : HH) : UInt64 := Id.run do
  let mut h := fnvOffset
  h := fnvNat h s.count
  h := fnvNat h s.exp
  h := fnvNat h s.counter
  for j in [0:s.count + 1] do
    let t := s.heap.getD j {}
    h := fnvNat h t.key
    h := fnvNat h t.hidx
    h := fnvNat h t.item.a
    h := fnvNat h t.item.b
    h := fnvNat h t.item.c
    h := fnvNat h t.item.d
    h := fnvInt h t.d
    h := fnvInt h t.i
  for sl in s.hash do
    h := fnvNat h sl.key
    h := fnvNat h sl.idx
  return h

def dumpStr (s : HH) : String := Id.run do
  let mut o := s!"state count={s.count} exp={s.exp} counter={s.counter} heapsz={2 ^ s.exp} hashsz={s.hash.size}\n"
  for j in [0:s.count + 1] do
    let t := s.heap.getD j {}
    o := o ++ s!" heap[{j}] key={t.key} hidx={t.hidx} item={t.item.a},{t.item.b},{t.item.c},{t.item.d} d={t.d} i={t.i}\n"
  for j in [0:s.hash.size] do
    let sl := s.hash.getD j {}
    if sl.key ≠ 0 ∨ sl.idx ≠ 0 then
      o := o ++ s!" hash[{j}] key={sl.key} idx={sl.idx}\n"
  return o

def orderByName : String → Option Order
  | "default" => some CimbaModel.Generated.default_order_check
  | "event" => some CimbaModel.Generated.heap_order_check
  | "guard" => some CimbaModel.Generated.guard_queue_check
  | "holder" => some CimbaModel.Generated.holder_queue_check
  | "pq" => some CimbaModel.Generated.compare_func
  | _ => none

def pat (s : String) : Option Nat := if s = "*" then some anyItem else s.toNat?

def tagStr (t : HTag) : String :=
  s!"ok {t.key} {t.item.a} {t.item.b} {t.item.c} {t.item.d} {t.d} {t.i}"

def fin (st : St) (o : String) : St × String :=
  match st.hh with
  | some s => (st, o ++ " h=" ++ hex16 (digest s) ++ "\n")
  | none => (st, o ++ " h=none\n")

def withHH (st : St) (f : HH → Except Fault (HH × String)) : St × String :=
  match st.hh with
  | none => fin st "no-heap"
  | some s =>
    match f s with
    | .ok (s', o) => fin { st with hh := some s' } o
    | .error e => fin st s!"fault {e}"

def step (st : St) (ws : List String) : St × String :=
  match ws with
  | ["init", e, ord] =>
    match e.toNat?, orderByName ord with
    | some e, some lt =>
      match init e with
      | .ok s => fin { hh := some s, lt := lt } "ok"
      | .error f => fin st s!"fault {f}"
    | _, _ => fin st "bad-op"
  | ["enq", k, a, b, c, d, dk, ik] =>
    match k.toNat?, pat a, pat b, pat c, pat d, dk.toInt?, ik.toInt? with
    | some k, some a, some b, some c, some d, some dk, some ik =>
      withHH st fun s => do
        let (s', key) ← enqueue st.lt s ⟨a, b, c, d⟩ k dk ik
        pure (s', s!"ok {key}")
    | _, _, _, _, _, _, _ => fin st "bad-op"
  | ["deq"] =>
    withHH st fun s => do
      let (s', r) ← dequeue st.lt s
      pure (s', match r with | some t => tagStr t | none => "none")
  | ["peek"] =>
    withHH st fun s => do
      let r ← peek s
      pure (s, match r with | some t => tagStr t | none => "none")
  | ["rm", k] =>
    match k.toNat? with
    | some k => withHH st fun s => do
        let (s', r) ← remove st.lt s k
        pure (s', s!"ok {if r then 1 else 0}")
    | none => fin st "bad-op"
  | ["rep", k, d, i] =>
    match k.toNat?, d.toInt?, i.toInt? with
    | some k, some d, some i => withHH st fun s => do
        let s' ← reprioritize st.lt s k d i
        pure (s', "ok")
    | _, _, _ => fin st "bad-op"
  | ["item", k] =>
    match k.toNat? with
    | some k => withHH st fun s => do
        let t ← lookup s k
        pure (s, s!"ok {t.item.a} {t.item.b} {t.item.c} {t.item.d}")
    | none => fin st "bad-op"
  | ["dk", k] =>
    match k.toNat? with
    | some k => withHH st fun s => do
        let t ← lookup s k
        pure (s, s!"ok {t.d}")
    | none => fin st "bad-op"
  | ["ik", k] =>
    match k.toNat? with
    | some k => withHH st fun s => do
        let t ← lookup s k
        pure (s, s!"ok {t.i}")
    | none => fin st "bad-op"
  | ["isq", k] =>
    match k.toNat? with
    | some k => withHH st fun s => do
        let r ← isEnqueued s k
        pure (s, s!"ok {if r then 1 else 0}")
    | none => fin st "bad-op"
  | [op, a, b, c, d] =>
    match pat a, pat b, pat c, pat d with
    | some a, some b, some c, some d =>
      if op = "pf" then withHH st fun s => pure (s, s!"ok {patternFind s ⟨a, b, c, d⟩}")
      else if op = "pc" then withHH st fun s => pure (s, s!"ok {patternCount s ⟨a, b, c, d⟩}")
      else if op = "px" then withHH st fun s => do
        let (s', n) ← patternCancel st.lt s ⟨a, b, c, d⟩
        pure (s', s!"ok {n}")
      else fin st "bad-op"
    | _, _, _, _ => fin st "bad-op"
  | ["count"] => withHH st fun s => pure (s, s!"ok {s.count}")
  | ["clear"] => withHH st fun s => pure (clear s, "ok")
  | ["reset"] => withHH st fun s => do
      let s' ← reset s
      pure (s', "ok")
  | ["dump"] => withHH st fun s => pure (s, dumpStr s ++ "ok")
  | _ => fin st "bad-op"

def main : IO Unit := do
  let _ ← loop (← IO.getStdin) (← IO.getStdout) step ({} : St)
