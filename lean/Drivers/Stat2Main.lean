/-
  Stat2Main - the Lean side of the C18 correspondence (sorting, copies, medians, five-number
  summaries, histograms, autocorrelation), same line protocol as harness/statdrv2.c.
  Numbers are exact rationals written `p` or `p/q`.  `j…` lines evaluate Monitor.C18 on
  values reported by the implementation.
-/
import CimbaModel.Stats.Sort
import CimbaModel.Stats.Arrays
import CimbaModel.Stats.Median
import CimbaModel.Stats.Hist
import CimbaModel.Stats.Acf
import CimbaModel.Monitor.C18
import Drivers.Common

open CimbaModel.Stats CimbaModel.Monitor.C18 Drivers

structure St where
  initSz : Nat := 1024
  minVar : Rat := 1 / 1000000000
  ds : DS Rat := {}
  cp : DS Rat := {}
  ts : TS Rat := {}
  tcp : TS Rat := {}

def parseRat (s : String) : Option Rat :=
  match s.splitOn "/" with
  | [p] => p.toInt?.map fun n => (n : Rat)
  | [p, q] => match p.toInt?, q.toNat? with
    | some n, some d => if d = 0 then none else some ((n : Rat) / (d : Rat))
    | _, _ => none
  | _ => none

def parseRats (ws : List String) : Option (List Rat) := ws.mapM parseRat

def parseTuple (s : String) : Option (List Rat) := (s.splitOn ":").mapM parseRat

def showRats (l : List Rat) : String := " ".intercalate (l.map toString)
def showOpt (o : Option Rat) : String := match o with | some x => toString x | none => "none"
def showTriples (l : List (Rat × Rat × Rat)) : String :=
  " ".intercalate (l.map fun (x, t, w) => s!"{x}:{t}:{w}")

def dsHead (tag : String) (d : DS Rat) : String :=
  s!"{tag} count={d.count} cursize={d.cursize} min={showOpt d.min} max={showOpt d.max}"

def addAll (initSz : Nat) (d : DS Rat) : List Rat → Option (DS Rat)
  | [] => some d
  | x :: r => (d.add initSz x).bind fun d' => addAll initSz d' r

def taddAll (initSz : Nat) (s : TS Rat) : List Rat → Option (TS Rat)
  | x :: t :: r => (s.add initSz x t).bind fun s' => taddAll initSz s' r
  | [] => some s
  | _ => none

def showFive (tag : String) (f : Option (FiveNum Rat)) : String :=
  match f with
  | some f => s!"{tag} {f.min} {f.q1} {f.med} {f.q3} {f.max}\n"
  | none => s!"{tag} fault\n"

def showHist (tag : String) (h : Option Hist) : String :=
  match h with
  | some h => s!"{tag} nb={h.nb} lo={h.low} hi={h.high} binsize={h.binsize} bins={showRats h.bins.toList}\n"
  | none => s!"{tag} fault\n"

def splitBar (ws : List String) : List (List String) :=
  let rec go (cur : List String) (acc : List (List String)) : List String → List (List String)
    | [] => (cur.reverse :: acc).reverse
    | "|" :: r => go [] (cur.reverse :: acc) r
    | w :: r => go (w :: cur) acc r
  go [] [] ws

def pairs (ws : List String) : Option (List (Rat × Rat)) :=
  ws.mapM fun s => match parseTuple s with
    | some [x, w] => some (x, w)
    | _ => none

def triples (ws : List String) : Option (List (Rat × Rat × Rat)) :=
  ws.mapM fun s => match parseTuple s with
    | some [x, t, w] => some (x, t, w)
    | _ => none

def verdict (b : Bool) : String := if b then "judge ok\n" else "judge violated\n"

def judge (ws : List String) : String :=
  match ws with
  | "jsort" :: r =>
    match splitBar r with
    | [a, b] => match parseRats a, parseRats b with
      | some i, some o => verdict (sortOK i o)
      | _, _ => "judge bad\n"
    | _ => "judge bad\n"
  | "jsort3" :: r =>
    match splitBar r with
    | [a, b] => match triples a, triples b with
      | some i, some o => verdict (sort3OK i o)
      | _, _ => "judge bad\n"
    | _ => "judge bad\n"
  | "jmedian" :: m :: "|" :: r =>
    match parseRat m, pairs r with
    | some m, some xw => verdict (isMedian xw m)
    | _, _ => "judge bad\n"
  | "jfivenum" :: a :: b :: c :: d :: e :: "|" :: r =>
    match parseRats [a, b, c, d, e], pairs r with
    | some [a, b, c, d, e], some xw => verdict (fivenumOK xw a b c d e)
    | _, _ => "judge bad\n"
  | "jhist" :: nb :: lo :: hi :: "|" :: r =>
    match splitBar r with
    | [bins, xw] => match nb.toNat?, parseRat lo, parseRat hi, parseRats bins, pairs xw with
      | some nb, some lo, some hi, some bins, some xw => verdict (histOK xw nb lo hi bins)
      | _, _, _, _, _ => "judge bad\n"
    | _ => "judge bad\n"
  | _ => "judge bad\n"

def xwOfSeries (s : TS Rat) : List (Rat × Rat) := s.triples.map fun (x, _, w) => (x, w)

def step (st : St) (ws : List String) : St × String :=
  match ws with
  | ["cfg", n] => match n.toNat? with
    | some n => ({ st with initSz := n }, s!"cfg {n}\n")
    | none => (st, "bad-op\n")
  | ["ds"] => ({ st with ds := {}, cp := {} }, "ds\n")
  | "add" :: r => match parseRats r with
    | some xs => match addAll st.initSz st.ds xs with
      | some d => ({ st with ds := d }, dsHead "add" d ++ "\n")
      | none => (st, "add fault\n")
    | none => (st, "bad-op\n")
  | ["dump"] => (st, s!"dump {showRats st.ds.samples}\n")
  | ["sort"] =>
    let d := { st.ds with xa := heapsort id st.ds.count st.ds.xa }
    ({ st with ds := d }, s!"sort {showRats d.samples}\n")
  | ["copy"] => match st.ds.copy with
    | some c => ({ st with cp := c }, dsHead "copy" c ++ " | " ++ showRats c.samples ++ "\n")
    | none => (st, "copy fault\n")
  | "copyadd" :: r => match parseRats r with
    | some xs => match addAll st.initSz st.cp xs with
      | some d => ({ st with cp := d }, dsHead "copyadd" d ++ " | " ++ showRats d.samples ++ "\n")
      | none => (st, "copyadd fault\n")
    | none => (st, "bad-op\n")
  | ["median"] => (st, s!"median {showOpt st.ds.median}\n")
  | ["fivenum"] => (st, showFive "fivenum" st.ds.fivenum)
  | ["hist", nb, lo, hi] => match nb.toNat?, parseRat lo, parseRat hi, st.ds.min, st.ds.max with
    | some nb, some lo, some hi, some mn, some mx =>
      (st, showHist "hist" (histDataset st.ds.samples mn mx nb lo hi))
    | _, _, _, _, _ => (st, "bad-op\n")
  | ["acf", n] => match n.toNat? with
    | some n => (st, s!"acf {showRats (acf st.minVar st.ds.samples n)}\n")
    | none => (st, "bad-op\n")
  | ["acfrel", n, sc, sh] => match n.toNat?, parseRat sc, parseRat sh with
    | some n, some sc, some sh =>
      let xs := st.ds.samples
      (st, s!"acfrel {showRats (acf st.minVar xs n)} | {showRats (acf st.minVar (xs.map fun x => x * sc + sh) n)}\n")
    | _, _, _ => (st, "bad-op\n")
  | ["corr", n] => match n.toNat? with
    | some n =>
      -- cmb_dataset_correlogram_print: data_bar_print asserts -1 <= acf <= 1 (release assert)
      if ((acf st.minVar st.ds.samples n).drop 1).all (fun a => decide (-1 ≤ a) && decide (a ≤ 1)) then (st, "corr ok\n")
      else (st, "corr fault\n")
    | none => (st, "bad-op\n")
  | ["ts"] => ({ st with ts := {}, tcp := {} }, "ts\n")
  | "tadd" :: r => match parseRats r with
    | some xs => match taddAll st.initSz st.ts xs with
      | some s => ({ st with ts := s }, dsHead "tadd" s.ds ++ "\n")
      | none => (st, "tadd fault\n")
    | none => (st, "bad-op\n")
  | ["tfin", t] => match parseRat t with
    | some t => match st.ts.finalize st.initSz t with
      | some s => ({ st with ts := s }, dsHead "tfin" s.ds ++ "\n")
      | none => (st, "tfin fault\n")
    | none => (st, "bad-op\n")
  | ["tdump"] => (st, s!"tdump {showTriples st.ts.triples}\n")
  | ["tsortx"] =>
    let r := heapsort3 st.ts.ds.count (st.ts.ds.xa, st.ts.ta, st.ts.wa)
    let s : TS Rat := { ds := { st.ts.ds with xa := r.1 }, ta := r.2.1, wa := r.2.2 }
    ({ st with ts := s }, s!"tsortx {showTriples s.triples}\n")
  | ["tsortt"] =>
    let r := heapsort3 st.ts.ds.count (st.ts.ta, st.ts.ds.xa, st.ts.wa)
    let s : TS Rat := { ds := { st.ts.ds with xa := r.2.1 }, ta := r.1, wa := r.2.2 }
    ({ st with ts := s }, s!"tsortt {showTriples s.triples}\n")
  | ["tcopy"] => match st.ts.copy with
    | some c => ({ st with tcp := c }, dsHead "tcopy" c.ds ++ " | " ++ showTriples c.triples ++ "\n")
    | none => (st, "tcopy fault\n")
  | "tcopyadd" :: r => match parseRats r with
    | some xs => match taddAll st.initSz st.tcp xs with
      | some s => ({ st with tcp := s }, dsHead "tcopyadd" s.ds ++ " | " ++ showTriples s.triples ++ "\n")
      | none => (st, "tcopyadd fault\n")
    | none => (st, "bad-op\n")
  | ["tmedian"] => (st, s!"tmedian {showOpt st.ts.median}\n")
  | ["tfivenum"] => (st, showFive "tfivenum" st.ts.fivenum)
  | ["thist", nb, lo, hi] => match nb.toNat?, parseRat lo, parseRat hi, st.ts.ds.min, st.ts.ds.max with
    | some nb, some lo, some hi, some mn, some mx =>
      (st, showHist "thist" (histSeries (xwOfSeries st.ts) mn mx nb lo hi))
    | _, _, _, _, _ => (st, "bad-op\n")
  | ["tacf", n] => match n.toNat? with
    | some n => (st, s!"tacf {showRats (acf st.minVar st.ts.ds.samples n)}\n")
    | none => (st, "bad-op\n")
  | w :: _ => if w.startsWith "j" then (st, judge ws) else (st, "bad-op\n")
  | [] => (st, "")

def main : IO Unit := do
  let stdin ← IO.getStdin
  let stdout ← IO.getStdout
  let _ ← loop stdin stdout step ({} : St)
  return ()
