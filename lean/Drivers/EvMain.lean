/-
  evmain - the Lean side of the event-kernel correspondence: interprets the same script language as
  harness/evdrv.c on CimbaModel.Event.Model and prints the same log.
-/
import CimbaModel.Event.Model
import Drivers.Common

open CimbaModel CimbaModel.HashHeap CimbaModel.Event Drivers

abbrev OpLine := List String

structure VarInfo where
  h : Nat := 0
  deriving Inhabited

structure St where
  q : EvQ := {}
  vars : Array Nat := Array.replicate 64 0
  bodies : Array (List OpLine) := Array.replicate 9 []
  executed : Nat := 0
  out : Array String := #[]
  /-- follow mode (Monitor.C01): the implementation's log, a cursor, the implementation-handle → issue-index map -/
  follow : Option (Array String) := none
  cursor : Nat := 0
  hmap : List (Nat × Nat) := []
  bad : Option String := none

def execCap : Nat := 3000

/-- rewrite `h=N` / `cur=N` tokens of an implementation log line through the handle map; `none` if a handle is unknown -/
def canon (hmap : List (Nat × Nat)) (line : String) : Option String := do
  let ws ← (line.splitOn " ").mapM fun w =>
    if w.startsWith "h=" ∨ w.startsWith "cur=" then
      match w.splitOn "=" with
      | [k, v] =>
        match v.toNat? with
        | some 0 => some w
        | some n => (hmap.lookup n).map fun m => s!"{k}={m}"
        | none => some w
      | _ => some w
    else some w
  pure (" ".intercalate ws)

/-- Emit an expected log line. In follow mode compare it with the implementation's next line instead
    (Monitor.C01: the implementation may number its handles differently, nothing else). -/
def emit (s : St) (l : String) : St :=
  match s.follow with
  | none => { s with out := s.out.push l }
  | some log =>
    if s.bad.isSome then s
    else
      match log[s.cursor]? with
      | none => { s with bad := some s!"line {s.cursor}: implementation log ends, expected '{l}'" }
      | some actual =>
        let s := { s with cursor := s.cursor + 1 }
        -- a schedule line binds the implementation's handle to the issue index
        if l.startsWith "sched" ∧ (l.splitOn " -> h=").length = 2 then
          match l.splitOn " -> h=", actual.splitOn " -> h=" with
          | [le, lh], [ae, ah] =>
            match lh.toNat?, ah.toNat? with
            | some idx, some ih =>
              if le = ae ∧ ih ≠ 0 ∧ (s.hmap.lookup ih).isNone then { s with hmap := (ih, idx) :: s.hmap }
              else { s with bad := some s!"line {s.cursor - 1}: expected '{l}' got '{actual}' (handle reused or zero)" }
            | _, _ => { s with bad := some s!"line {s.cursor - 1}: expected '{l}' got '{actual}'" }
          | _, _ => { s with bad := some s!"line {s.cursor - 1}: expected '{l}' got '{actual}'" }
        else
          match canon s.hmap actual with
          | some a => if a = l then s else { s with bad := some s!"line {s.cursor - 1}: expected '{l}' got '{actual}'" }
          | none => { s with bad := some s!"line {s.cursor - 1}: expected '{l}' got '{actual}' (unknown handle)" }

def parseTime (q : EvQ) (w : String) : Int :=
  let v := (w.drop 1).toString.toInt?.getD 0
  if w.startsWith "+" then q.now + v else v

def patWord (w : String) : Nat := if w = "*" then anyWord else w.toNat?.getD 0
/-- action ids are stored as id + 1 (a function pointer is never NULL) -/
def patAct (w : String) : Nat := if w = "*" then anyWord else w.toNat?.getD 0 + 1

mutual
  /-- run the op list `ops`; `isMain` enables next/run; `fuel` bounds nesting -/
  partial def runOps (s : St) (ops : List OpLine) (isMain : Bool) : St :=
    match ops with
    | [] => s
    | op :: rest => runOps (runOp s op isMain) rest isMain

  partial def stepOne (s : St) : St × Bool :=
    if s.executed ≥ execCap then (emit s "cap", false)
    else
      let s := { s with executed := s.executed + 1 }
      match executeNext s.q with
      | none => (emit s "next -> empty", false)
      | some (e, q') =>
        let s := { s with q := q' }
        let id := e.item.a - 1
        let s := emit s s!"exec h={s.q.current} act={id} s={e.item.b} o={e.item.c} now={s.q.now}"
        let s := runOps s (s.bodies.getD id []) false
        (emit s s!"end cur={s.q.current} now={s.q.now}", true)

  partial def runAll (s : St) : St :=
    let (s', more) := stepOne s
    if more then runAll s' else s'

  partial def runOp (s : St) (op : OpLine) (isMain : Bool) : St :=
    let var (w : String) : Nat := w.toNat?.getD 0
    match op with
    | ["sched", v, a, sb, ob, t, p] =>
      let tt := parseTime s.q t
      if tt < s.q.now then emit s s!"sched v={var v} skip"
      else
        match schedule s.q (a.toNat?.getD 0 + 1) (sb.toNat?.getD 0) (ob.toNat?.getD 0) tt (p.toInt?.getD 0) with
        | .ok (q', h) => emit { s with q := q', vars := s.vars.set! (var v) h } s!"sched v={var v} -> h={h}"
        | .error f => emit s s!"sched v={var v} fault {f}"
    | ["cancel", v] =>
      let h := s.vars.getD (var v) 0
      if h = 0 then emit s s!"cancel v={var v} unset"
      else
        let (q', r) := cancel s.q h
        emit { s with q := q' } s!"cancel v={var v} -> {if r then 1 else 0}"
    | ["resched", v, t] =>
      let h := s.vars.getD (var v) 0
      let tt := parseTime s.q t
      if h = 0 ∨ ¬ isScheduled s.q h ∨ tt < s.q.now then emit s s!"resched v={var v} skip"
      else match reschedule s.q h tt with
        | .ok q' => emit { s with q := q' } s!"resched v={var v} ok"
        | .error f => emit s s!"resched v={var v} fault {f}"
    | ["reprio", v, p] =>
      let h := s.vars.getD (var v) 0
      if h = 0 ∨ ¬ isScheduled s.q h then emit s s!"reprio v={var v} skip"
      else match reprioritize s.q h (p.toInt?.getD 0) with
        | .ok q' => emit { s with q := q' } s!"reprio v={var v} ok"
        | .error f => emit s s!"reprio v={var v} fault {f}"
    | ["issched", v] =>
      let h := s.vars.getD (var v) 0
      if h = 0 then emit s s!"issched v={var v} unset"
      else emit s s!"issched v={var v} -> {if isScheduled s.q h then 1 else 0}"
    | ["time", v] =>
      let h := s.vars.getD (var v) 0
      if h = 0 ∨ ¬ isScheduled s.q h then emit s s!"time v={var v} skip"
      else match timeOf s.q h with
        | .ok t => emit s s!"time v={var v} -> {t}"
        | .error f => emit s s!"time v={var v} fault {f}"
    | ["prio", v] =>
      let h := s.vars.getD (var v) 0
      if h = 0 ∨ ¬ isScheduled s.q h then emit s s!"prio v={var v} skip"
      else match priorityOf s.q h with
        | .ok t => emit s s!"prio v={var v} -> {t}"
        | .error f => emit s s!"prio v={var v} fault {f}"
    | ["pfind", a, sb, ob] =>
      emit s (if patternFind s.q (patAct a) (patWord sb) (patWord ob) = 0 then "pfind -> none" else "pfind -> found")
    | ["pcount", a, sb, ob] => emit s s!"pcount -> {patternCount s.q (patAct a) (patWord sb) (patWord ob)}"
    | ["pcancel", a, sb, ob] =>
      let (q', n) := patternCancel s.q (patAct a) (patWord sb) (patWord ob)
      emit { s with q := q' } s!"pcancel -> {n}"
    | ["clear"] => emit { s with q := clear s.q } "clear"
    | ["count"] => emit s s!"count -> {s.q.pending.length}"
    | ["cur"] => emit s s!"cur -> {s.q.current}"
    | ["now"] => emit s s!"now -> {s.q.now}"
    | ["next"] => if isMain then (stepOne s).1 else emit s "bad-op next"
    | ["run"] => if isMain then runAll s else emit s "bad-op run"
    | w :: _ => emit s s!"bad-op {w}"
    | [] => s
end

partial def readAll (h : IO.FS.Stream) (acc : Array OpLine) : IO (Array OpLine) := do
  let line ← h.getLine
  if line.isEmpty then return acc
  let ws := words line
  if ws.isEmpty then readAll h acc else readAll h (acc.push ws)

def main (args : List String) : IO Unit := do
  let lines ← readAll (← IO.getStdin) #[]
  let follow ← match args with
    | ["--monitor", path] => do
      let txt ← IO.FS.readFile path
      pure (some ((txt.splitOn "\n").filter (· ≠ "")).toArray)
    | _ => pure none
  let mut s : St := {}
  let mut i := 0
  let mut start : Int := 0
  while i < lines.size do
    let l := lines[i]!
    match l with
    | ["start", t] => start := t.toInt?.getD 0; i := i + 1
    | ["act", id, n] =>
      let n := n.toNat?.getD 0
      s := { s with bodies := s.bodies.set! (id.toNat?.getD 0) ((lines.extract (i + 1) (i + 1 + n)).toList) }
      i := i + 1 + n
    | ["main", n] =>
      let n := n.toNat?.getD 0
      s := { s with bodies := s.bodies.set! 8 ((lines.extract (i + 1) (i + 1 + n)).toList) }
      i := i + 1 + n
    | _ => i := i + 1
  s := { s with q := { now := start }, follow := follow }
  s := runOps s (s.bodies.getD 8 []) true
  s := emit s s!"final count={s.q.pending.length} now={s.q.now}"
  let out ← IO.getStdout
  match follow with
  | none =>
    for l in s.out do
      out.putStrLn l
  | some _ =>
    match s.bad with
    | some b => out.putStrLn s!"bad {b}"
    | none => out.putStrLn s!"ok {s.cursor}"
