/- shared helpers of the compiled model drivers (core Lean only) -/
namespace Drivers

def fnvOffset : UInt64 := 14695981039346656037
def fnvPrime : UInt64 := 1099511628211

/-- FNV-1a over the 8 little-endian bytes of a word -/
def fnv (h : UInt64) (x : UInt64) : UInt64 := Id.run do
  let mut h := h
  for j in [0:8] do
    h := (h ^^^ ((x >>> (8 * j).toUInt64) &&& 0xff)) * fnvPrime
  return h

def fnvNat (h : UInt64) (x : Nat) : UInt64 := fnv h (UInt64.ofNat (x % 2 ^ 64))
def fnvInt (h : UInt64) (x : Int) : UInt64 := fnv h (UInt64.ofNat (x % (2 ^ 64 : Int)).toNat)

def hex16 (x : UInt64) : String :=
  let s := String.ofList (Nat.toDigits 16 x.toNat)
  "".pushn '0' (16 - s.length) ++ s

def words (line : String) : List String :=
  (line.trimAscii.toString.splitOn " ").filter (· ≠ "")

/-- read stdin line by line, feeding a state machine; prints each output as it comes -/
partial def loop {σ : Type} (h : IO.FS.Stream) (out : IO.FS.Stream) (step : σ → List String → σ × String) (s : σ) : IO σ := do
  let line ← h.getLine
  if line.isEmpty then return s
  let ws := words line
  if ws.isEmpty then loop h out step s
  else
    let (s', o) := step s ws
    out.putStr o
    out.flush
    loop h out step s'

end Drivers
