/-
  PoolMain - the Lean side of the memory-pool correspondence (exact state), DESIGN.md §4 C20.
  Same line protocol as harness/pooldrv.c.  Command-line argument `cls=N` sets CHUNK_LIST_SIZE as read
  from the source by tools/props/C20.py; `defective` (used for diagnosis) runs the model of the code
  as shipped.
-/
import CimbaModel.Mempool.Model
import Drivers.Common

open CimbaModel.Mempool Drivers

structure St where
  cfg : Cfg := { page := 4096, cls := 64 }
  defective : Bool := false
  mp : Option MP := none
  hnds : Array (Option Addr) := #[]     -- handle -> address while live
  seeds : Array Nat := #[]
  nlive : Nat := 0

def flWalk : Nat := 32

def cookieCode : Cookie → Nat
  | .zero => 0 | .uninit => 1 | .init => 2 | .threadStatic => 3

def addrStr : Option Addr → String
  | none => "-"
  | some (c, w) => s!"{c}:{w}"

/-- digest of the first `fuel` entries of the in-memory free list -/
def walk (m : Mem) : (fuel : Nat) → Option Addr → UInt64 → Nat → UInt64 × Nat × Option Addr
  | 0, p, h, n => (h, n, p)
  | _ + 1, none, h, n => (h, n, none)
  | fuel + 1, some (c, w), h, n =>
    match rdW m c w with
    | .ok (.link nx) => walk m fuel nx (fnvNat (fnvNat h c) w) (n + 1)
    | _ => (fnvNat h 999999, n + 1, none)

def stateStr (s : MP) : String := Id.run do
  let mut cl := fnvOffset
  if s.chunkList.isSome then
    for i in [0:s.listCnt] do
      cl := fnvNat cl (match s.blkData.getD i none with | some c => c | none => 999999)
  let (fl, n, _) := walk s.mem flWalk s.nextObj fnvOffset 0
  return s!" | ck={cookieCode s.cookie} sz={s.objSz} num={s.incrNum} isz={s.incrSz} len={s.listLen} cnt={s.listCnt} cl={hex16 cl} nx={addrStr s.nextObj} fl={hex16 fl}/{n}\n"

def fin (st : St) (o : String) : St × String :=
  match st.mp with
  | some s => (st, o ++ stateStr s)
  | none => (st, o ++ " | none\n")

def fillObj (s : MP) (a : Addr) (seed : Nat) : Except Fault MP := do
  let mut s := s
  for j in [0:s.objSz / 8] do
    s ← userWrite s a j (seed * 65536 + j)
  return s

def verifyObj (s : MP) (a : Addr) (seed : Nat) : Bool := Id.run do
  for j in [0:s.objSz / 8] do
    if s.mem.get a.1 (a.2 + j) ≠ .data (seed * 65536 + j) then return false
  return true

def verifyAll (st : St) (s : MP) : Nat × String := Id.run do
  let mut n := 0
  let mut o := ""
  for h in [0:st.hnds.size] do
    match st.hnds.getD h none with
    | some a =>
      n := n + 1
      if !verifyObj s a (st.seeds.getD h 0) then o := o ++ s!"PROPERTY contents handle={h} changed while allocated\n"
    | none => pure ()
  return (n, o)

/-- full free-list digest -/
partial def walkAll (m : Mem) (p : Option Addr) (h : UInt64) (n : Nat) : UInt64 × Nat :=
  match p with
  | none => (h, n)
  | some (c, w) =>
    match rdW m c w with
    | .ok (.link nx) => walkAll m nx (fnvNat (fnvNat h c) w) (n + 1)
    | _ => (fnvNat h 999999, n + 1)

def step (st : St) (ws : List String) : St × String :=
  match ws with
  | ["page", p] =>
    match p.toNat? with
    | some p => fin { st with cfg := { st.cfg with page := p } } "ok"
    | none => fin st "bad-op"
  | "init" :: kind :: rest =>
    let args := match kind, rest with
      | "dyn", [a, b] => (a.toNat?, b.toNat?)
      | "static", [a, b] => (a.toNat?, b.toNat?)
      | "lib", [_, a, b] => (a.toNat?, b.toNat?)
      | _, _ => (none, none)
    match st.mp, args with
    | none, (some sz, some num) =>
      if kind = "dyn" then
        match initPool st.cfg create sz num with
        | .ok s => fin { st with mp := some s } "ok"
        | .error e => fin st s!"fault {e}"
      else fin { st with mp := some (staticInit sz num) } "ok"
    | _, _ => fin st "bad-op"
  | ["a"] =>
    match st.mp with
    | none => (st, "no-pool | none\n")
    | some s =>
      match (if st.defective then allocDefective st.cfg s else alloc st.cfg s) with
      | .error e => fin st s!"fault {e}"
      | .ok (s, a) =>
        match fillObj s a 0 with
        | .error e => fin st s!"fault {e}"
        | .ok s =>
          let h := st.hnds.size
          fin { st with mp := some s, hnds := st.hnds.push (some a), seeds := st.seeds.push 0, nlive := st.nlive + 1 }
            s!"ok {h} {addrStr (some a)}"
  | ["f", h] =>
    match st.mp, h.toNat? with
    | none, _ => (st, "no-pool | none\n")
    | some s, some h =>
      match st.hnds.getD h none with
      | none => fin st "bad-op"
      | some a =>
        let pre := if verifyObj s a (st.seeds.getD h 0) then "" else s!"PROPERTY contents handle={h} changed while allocated\n"
        match free s a with
        | .error e => fin st s!"fault {e}"
        | .ok s => fin { st with mp := some s, hnds := st.hnds.set! h none, nlive := st.nlive - 1 } (pre ++ "ok")
    | _, _ => fin st "bad-op"
  | ["w", h, v] =>
    match st.mp, h.toNat?, v.toNat? with
    | none, _, _ => (st, "no-pool | none\n")
    | some s, some h, some v =>
      match st.hnds.getD h none with
      | none => fin st "bad-op"
      | some a =>
        match fillObj s a v with
        | .error e => fin st s!"fault {e}"
        | .ok s => fin { st with mp := some s, seeds := st.seeds.set! h v } "ok"
    | _, _, _ => fin st "bad-op"
  | ["v"] =>
    match st.mp with
    | none => (st, "no-pool | none\n")
    | some s => let (n, o) := verifyAll st s; fin st (o ++ s!"ok {n}")
  | ["dump"] =>
    match st.mp with
    | none => (st, "no-pool | none\n")
    | some s => let (h, n) := walkAll s.mem s.nextObj fnvOffset 0; fin st s!"ok {n} {hex16 h}"
  | ["end"] =>
    match st.mp with
    | none => (st, "no-pool | none\n")
    | some s => let (n, o) := verifyAll st s; fin { st with mp := none } (o ++ s!"ok {n}")
  | _ => fin st "bad-op"

/-- arguments: `cls=N` (CHUNK_LIST_SIZE, default 64), `defective` (model of the code as shipped) -/
def main (args : List String) : IO Unit := do
  let mut st : St := {}
  for a in args do
    if a = "defective" then st := { st with defective := true }
    else if a.startsWith "cls=" then
      match (a.drop 4).toNat? with
      | some k => st := { st with cfg := { st.cfg with cls := k } }
      | none => pure ()
  let _ ← loop (← IO.getStdin) (← IO.getStdout) step st
