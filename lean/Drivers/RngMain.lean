/-
  RngMain - the Lean side of the cmb_random.c correspondence (property C15), same line protocol as harness/rngdrv.c
  for the integer-only operations.  Core Lean only.

    rngmain          executes the REGENERATED definitions (Generated/Rng.lean) through Rng/Bridge.lean's `step`
    rngmain main     the same, but `run` does not reset the state (all runs on one thread, as `rngdrv main`)
    rngmain spec     executes the documented generator (Rng/Spec.lean): seed / raw / rawd / u53 only
-/
import CimbaModel.Rng.Bridge
import Drivers.Common

open CimbaModel.Generated CimbaModel.Rng Drivers

structure St where
  s : RngState := RngState.init
  runs : Nat := 0
  /-- `rngmain main`: all runs on one thread, the state carries over from run to run -/
  carry : Bool := false

def outWord : Out → UInt64
  | .word w => w
  | .int i => UInt64.ofInt i
  | .none => 0

/-- n calls of `c`; collects f(out) -/
def many (c : Call) (n : Nat) (s : RngState) : Array UInt64 × RngState := Id.run do
  let mut s := s
  let mut acc : Array UInt64 := Array.mkEmpty n
  for _ in [0:n] do
    let r := step c s
    acc := acc.push (outWord r.1)
    s := r.2
  return (acc, s)

def manyDigest (c : Call) (n : Nat) (s : RngState) : UInt64 × RngState := Id.run do
  let mut s := s
  let mut h := fnvOffset
  for _ in [0:n] do
    let r := step c s
    h := fnv h (outWord r.1)
    s := r.2
  return (h, s)

def hexList (a : Array UInt64) : String := a.foldl (fun acc w => acc ++ " " ++ hex16 w) ""

def stepLine (st : St) (ws : List String) : St × String :=
  match ws with
  | ["run"] => ({ st with s := if st.carry then st.s else RngState.init, runs := st.runs + 1 }, s!"run {st.runs}\n")
  | ["seed", x] =>
    match x.toNat? with
    | some v => ({ st with s := cmb_random_initialize (UInt64.ofNat (v % 2 ^ 64)) st.s }, "seed\n")
    | none => (st, "bad-op seed\n")
  | ["raw", n] => let r := many .raw n.toNat! st.s; ({ st with s := r.2 }, "raw" ++ hexList r.1 ++ "\n")
  | ["rawd", n] => let r := manyDigest .raw n.toNat! st.s; ({ st with s := r.2 }, "rawd " ++ hex16 r.1 ++ "\n")
  | ["flip", n] =>
    let r := many .flip n.toNat! st.s
    ({ st with s := r.2 }, "flip " ++ r.1.foldl (fun acc w => acc ++ toString w.toNat) "" ++ "\n")
  | ["flipd", n] => let r := manyDigest .flip n.toNat! st.s; ({ st with s := r.2 }, "flipd " ++ hex16 r.1 ++ "\n")
  | ["u53", n] => let r := many .unit53 n.toNat! st.s; ({ st with s := r.2 }, "u53" ++ hexList r.1 ++ "\n")
  | ["curseed"] => let r := step .curseed st.s; ({ st with s := r.2 }, "curseed " ++ hex16 (outWord r.1) ++ "\n")
  | ["term"] => ({ st with s := (step .terminate st.s).2 }, "term\n")
  | ["mark"] => (st, "mark\n")
  | op :: _ => (st, s!"bad-op {op}\n")
  | [] => (st, "")

/-! the documented generator -/

structure SpecSt where
  g : Spec.Sfc64 := ⟨0, 0, 0, 0⟩
  runs : Nat := 0

def specMany (n : Nat) (g : Spec.Sfc64) : Array UInt64 × Spec.Sfc64 := Id.run do
  let mut g := g
  let mut acc : Array UInt64 := Array.mkEmpty n
  for _ in [0:n] do
    let r := g.next
    acc := acc.push r.1
    g := r.2
  return (acc, g)

def specLine (st : SpecSt) (ws : List String) : SpecSt × String :=
  match ws with
  | ["run"] => ({ st with runs := st.runs + 1 }, s!"run {st.runs}\n")
  | ["seed", x] => ({ st with g := Spec.seed256 (UInt64.ofNat (x.toNat! % 2 ^ 64)) }, "seed\n")
  | ["raw", n] => let r := specMany n.toNat! st.g; ({ st with g := r.2 }, "raw" ++ hexList r.1 ++ "\n")
  | ["rawd", n] =>
    let r := specMany n.toNat! st.g
    ({ st with g := r.2 }, "rawd " ++ hex16 (r.1.foldl fnv fnvOffset) ++ "\n")
  | ["u53", n] => let r := specMany n.toNat! st.g; ({ st with g := r.2 }, "u53" ++ hexList (r.1.map (fun (w : UInt64) => w >>> 11)) ++ "\n")
  | ["mark"] => (st, "mark\n")
  | op :: _ => (st, s!"bad-op {op}\n")
  | [] => (st, "")

def main (args : List String) : IO Unit := do
  let stdin ← IO.getStdin
  let stdout ← IO.getStdout
  if args == ["spec"] then
    let _ ← loop stdin stdout specLine ({} : SpecSt)
  else
    let _ ← loop stdin stdout stepLine ({ carry := args == ["main"] } : St)
